"""Semantic rule fragments over path summaries (sympath) and path facts.

They state what a function does on every path in terms of resolved
expressions, so they hold for any spelling: renamed or introduced locals,
inverted if/else, early returns, `continue` guards, conditional expressions,
extracted private helpers (inlined by pyfront.inlined)."""
import ast
import copy

from ..core import AnalysisError, norm_src
from ..pyfront import (clone, find_def, find_all, match, walk_local, dotted, same,
                       calls_in)
from ..flowq import iter_polarity, resolve_local
from ..cfg import cfg_of, header_expr
from ..facts import canon, guarded, test_nodes
from ..sympath import summaries, normal, subst


# ---------------------------------------------------------------------------
# expression normalisation

def _is_int(e):
    return isinstance(e, ast.Constant) and isinstance(e.value, int) and \
        not isinstance(e.value, bool)


class _TupleStrip(ast.NodeTransformer):
    """tuple(x) -> x for x a parameter-like name/tuple() chain: `required` is
    rebound to tuple(required) in several functions; both denote the key."""

    def visit_Subscript(self, node):
        self.generic_visit(node)
        # a full-slice copy of a fresh list has the same content: [..][:] -> [..]
        if isinstance(node.value, (ast.List, ast.ListComp)) and \
                isinstance(node.slice, ast.Slice) and node.slice.lower is None and \
                node.slice.upper is None and node.slice.step is None:
            return node.value
        # (a, b)[0] is a
        if isinstance(node.value, ast.Tuple) and isinstance(node.slice, ast.Constant) and \
                isinstance(node.slice.value, int) and not isinstance(node.slice.value, bool) \
                and 0 <= node.slice.value < len(node.value.elts) and not any(
                    isinstance(e, ast.Starred) for e in node.value.elts):
            return node.value.elts[node.slice.value]
        return node

    def visit_BinOp(self, node):
        self.generic_visit(node)
        # 1 + n is n + 1 (an integer literal on the left of an index sum)
        if isinstance(node.op, ast.Add) and _is_int(node.left) and not _is_int(node.right):
            node.left, node.right = node.right, node.left
        return node

    def visit_Call(self, node):
        self.generic_visit(node)
        # f(**{'k': v}) is f(k=v); f(**{}) is f()
        if any(k.arg is None and isinstance(k.value, ast.Dict) and all(
                isinstance(x, ast.Constant) and isinstance(x.value, str) and
                x.value.isidentifier() for x in k.value.keys) for k in node.keywords):
            kws = []
            for k in node.keywords:
                if k.arg is None and isinstance(k.value, ast.Dict) and all(
                        isinstance(x, ast.Constant) and isinstance(x.value, str) and
                        x.value.isidentifier() for x in k.value.keys):
                    kws += [ast.keyword(arg=x.value, value=v)
                            for x, v in zip(k.value.keys, k.value.values)]
                else:
                    kws.append(k)
            node.keywords = kws
        # f(*((a,) + rest)) is f(a, *rest); f(*(A + B)) is f(*A, *B)
        if any(isinstance(a, ast.Starred) and isinstance(a.value, (ast.BinOp, ast.Tuple))
               for a in node.args):
            def flat(e):
                if isinstance(e, ast.BinOp) and isinstance(e.op, ast.Add):
                    return flat(e.left) + flat(e.right)
                if isinstance(e, ast.Tuple):      # (a list display may have grown)
                    return list(e.elts)
                return [ast.Starred(value=e, ctx=ast.Load())]
            args = []
            for a in node.args:
                if isinstance(a, ast.Starred):
                    args += flat(a.value)
                else:
                    args.append(a)
            node.args = args
        # f(*map(F, X)) is f(*[F(c) for c in X]) (both are exhausted before the call)
        for k, a in enumerate(node.args):
            if isinstance(a, ast.Starred) and isinstance(a.value, ast.Call) and \
                    isinstance(a.value.func, ast.Name) and a.value.func.id == 'map' and \
                    len(a.value.args) == 2 and not a.value.keywords and \
                    isinstance(a.value.args[0], (ast.Name, ast.Attribute)):
                m = a.value
                node.args[k] = ast.Starred(value=ast.ListComp(
                    elt=ast.Call(func=m.args[0], args=[ast.Name(id='_m', ctx=ast.Load())],
                                 keywords=[]),
                    generators=[ast.comprehension(
                        target=ast.Name(id='_m', ctx=ast.Store()), iter=m.args[1],
                        ifs=[], is_async=0)]), ctx=ast.Load())
        if isinstance(node.func, ast.Name) and node.func.id == 'tuple' and \
                len(node.args) == 1 and not node.keywords:
            a = node.args[0]
            if isinstance(a, ast.Name) or (
                    isinstance(a, ast.Call) and isinstance(a.func, ast.Name)
                    and a.func.id == 'tuple'):
                return a
        # getattr(x, 'name') with a literal name reads x.name
        if isinstance(node.func, ast.Name) and node.func.id == 'getattr' and \
                len(node.args) == 2 and not node.keywords and \
                isinstance(node.args[1], ast.Constant) and \
                isinstance(node.args[1].value, str) and node.args[1].value.isidentifier():
            return ast.Attribute(value=node.args[0], attr=node.args[1].value,
                                 ctx=ast.Load())
        # list(map(F, X)) / tuple(map(F, X)) with a plain callable: the comprehension
        if isinstance(node.func, ast.Name) and node.func.id in ('list', 'tuple') and \
                len(node.args) == 1 and not node.keywords and \
                isinstance(node.args[0], ast.Call) and \
                isinstance(node.args[0].func, ast.Name) and node.args[0].func.id == 'map' \
                and len(node.args[0].args) == 2 and not node.args[0].keywords and \
                isinstance(node.args[0].args[0], (ast.Name, ast.Attribute)):
            m = node.args[0]
            comp = ast.ListComp(
                elt=ast.Call(func=m.args[0], args=[ast.Name(id='_m', ctx=ast.Load())],
                             keywords=[]),
                generators=[ast.comprehension(target=ast.Name(id='_m', ctx=ast.Store()),
                                              iter=m.args[1], ifs=[], is_async=0)])
            if node.func.id == 'list':
                return comp
            node.args = [comp]
            return node
        # a copy of a fresh list display has the same content: list([..]) -> [..]
        if isinstance(node.func, ast.Name) and node.func.id == 'list' and \
                len(node.args) == 1 and not node.keywords and \
                isinstance(node.args[0], (ast.List, ast.ListComp)):
            return node.args[0]
        return node


_COMPS = (ast.ListComp, ast.SetComp, ast.DictComp, ast.GeneratorExp)


def nt(expr):
    """normalised text of a resolved expression"""
    if expr is None:
        return 'None'
    e = _TupleStrip().visit(clone(expr))
    if any(isinstance(n, _COMPS) for n in ast.walk(e)):
        from ..normalize import alpha
        alpha(e)
    return norm_src(e)


def nform(expr):
    """normal-form AST of a resolved expression (nt without unparsing)"""
    e = _TupleStrip().visit(clone(expr))
    if any(isinstance(n, _COMPS) for n in ast.walk(e)):
        from ..normalize import alpha
        alpha(e)
    return e


def ntext(text):
    """normal form of an expression given as source text"""
    return nt(ast.parse(text, mode='eval').body)


def _eval3(node, assign):
    """Kleene value of a condition over known atoms ({canonical text: bool})"""
    if isinstance(node, ast.BoolOp):
        vals = [_eval3(v, assign) for v in node.values]
        if isinstance(node.op, ast.And):
            if any(v is False for v in vals):
                return False
            return None if any(v is None for v in vals) else True
        if any(v is True for v in vals):
            return True
        return None if any(v is None for v in vals) else False
    if isinstance(node, ast.UnaryOp) and isinstance(node.op, ast.Not):
        v = _eval3(node.operand, assign)
        return None if v is None else not v
    c, pol = canon(node, True)
    if c in assign:
        return assign[c] if pol else not assign[c]
    return None


def consistent(ps, assign, upto=None):
    """no fact of the path contradicts the assignment of the atoms"""
    for k, (c, t, p) in enumerate(ps.order):
        if upto is not None and p > upto:
            break
        try:
            e = ast.parse(c, mode='eval').body
        except SyntaxError:
            continue
        v = _eval3(e, assign)
        if v is not None and v != t:
            return False
    return True


def value_cases(e, facts=None):
    """[(((canonical condition, truth), ...), value AST)]: the value of an
    expression split on its top-level `and` / `or` / conditional expressions
    (a and b: a if a is falsy, else b)"""
    facts = facts or {}

    def known(test):
        c, pol = canon(test, True)
        v = facts.get(c)
        return c, pol, (None if v is None else (v if pol else not v))
    if isinstance(e, ast.IfExp):
        c, pol, v = known(e.test)
        out = []
        for truth, br in ((True, e.body), (False, e.orelse)):
            if v is not None and v != truth:
                continue
            for conds, val in value_cases(br, facts):
                out.append((((c, truth if pol else not truth),) + conds, val))
        return out
    if isinstance(e, ast.BoolOp):
        stop_on = isinstance(e.op, ast.Or)        # `or` stops at the first truthy
        out = []
        prefix = ()
        for k, v_ in enumerate(e.values):
            last = k == len(e.values) - 1
            c, pol, v = known(v_)
            if last:
                for conds, val in value_cases(v_, facts):
                    out.append((prefix + conds, val))
                break
            if v is None or v == stop_on:
                out.append((prefix + ((c, stop_on if pol else not stop_on),), v_))
            if v is not None and v == stop_on:
                break
            prefix = prefix + ((c, (not stop_on) if pol else stop_on),)
        return out
    return [((), e)]


def decided(ps, atoms, formula):
    """the value of formula(assignment) if it is the same for every assignment
    of the atoms that the path's facts admit, else None"""
    import itertools
    vals = set()
    for bits in itertools.product((True, False), repeat=len(atoms)):
        assign = dict(zip(atoms, bits))
        if consistent(ps, assign):
            vals.add(formula(assign))
    return vals.pop() if len(vals) == 1 else None


def decision_rows(func, atoms, normal_only=True):
    """rows (assignment dict, path, value text) for every normal path of func,
    every split of its returned value, and every assignment of the atoms
    (canonical condition texts) that the path's facts admit"""
    import itertools
    rows = []
    for ps in normal(summaries(func)):
        if ps.kind == 'raise':
            continue
        cases = value_cases(ps.ret, ps.facts) if ps.ret is not None else [((), None)]
        for conds, val in cases:
            for bits in itertools.product((True, False), repeat=len(atoms)):
                assign = dict(zip(atoms, bits))
                if any(assign.get(c, t) != t for c, t in conds):
                    continue
                if not consistent(ps, assign):
                    continue
                rows.append((assign, ps, nt(val)))
    return rows


def ifexp_table(e):
    """{(canonical condition, truth): normalised branch text} of a (possibly
    nested) conditional expression; a plain expression gives {(): text}"""
    if not isinstance(e, ast.IfExp):
        return {(): nt(e)}
    c, pol = canon(e.test, True)
    out = {}
    for truth, br in ((pol, e.body), (not pol, e.orelse)):
        for k, v in ifexp_table(br).items():
            out[((c, truth),) + k] = v
    return out


def fact_about(ps, value_text, form='%s is None'):
    """truth of `<value> is None` on this path, comparing normalised text"""
    for c, t, _pos in ps.order[::-1]:
        try:
            e = ast.parse(c, mode='eval').body
        except SyntaxError:
            continue
        if nt(e) == form % value_text:
            return t
    return None


# ---------------------------------------------------------------------------
# LookupBase.lookup / lookup1 / adapter_hook / lookupAll / subscriptions

def cached_lookup_spec(rep, rule, func, site, uncached, cache_expr, key_kind,
                       default_handling, uncached_args):
    """Every normal path: one probe of the right cache with the right key; on
    a miss exactly one call of self.<uncached>(...) whose value is stored
    under the same key in the same cache (nothing else is stored), on a hit no
    call and no store; None -> default iff default_handling."""
    ss = normal(summaries(func))
    problems = []
    n_hit = n_miss = 0
    for ps in ss:
        gets = [e for e in ps.events if e.kind == 'call' and
                isinstance(e.r.func, ast.Attribute) and e.r.func.attr == 'get'
                and len(e.r.args) == 2 and nt(e.r.args[1]) == '_not_in_mapping']
        if len(gets) != 1:
            if ps.kind == 'raise':
                continue
            problems.append('path probes the cache %d times' % len(gets))
            continue
        g = gets[0]
        cache = nt(g.r.func.value)
        if not cache_ok(cache, cache_expr):
            problems.append('probes `%s` (required %s)' % (cache, cache_expr))
        key = nt(g.r.args[0])
        kf = ps.fact('len(tuple(required)) == 1')
        if kf is None:
            kf = ps.fact('len(required) == 1')
        keyast = g.r.args[0]
        if key_kind == 'single-or-tuple' and isinstance(keyast, ast.IfExp):
            # the key computed once by a conditional expression
            tab = ifexp_table(_TupleStrip().visit(clone(keyast)))
            okk = tab in ({(('len(required) == 1', True),): 'required[0]',
                           (('len(required) == 1', False),): 'required'},)
            if not okk:
                problems.append('key `%s`' % key[:80])
        elif key_kind == 'single-or-tuple':
            want = 'required[0]' if kf else 'required'
            if kf is None or key != want:
                problems.append('key `%s` with len(required) == 1 being %s (required `%s`)'
                                % (key, kf, want))
        elif key_kind == 'tuple':
            if key != 'required':
                problems.append('key `%s` (required the tuple of required)' % key)
        getsrc = nt(g.r)
        miss = None
        for c, t, _pos in ps.order:
            if c.startswith(('ITER(', 'EXCEPT(')):
                continue
            e = ast.parse(c, mode='eval').body
            if isinstance(e, ast.Compare) and isinstance(e.ops[0], ast.Is):
                sides = {nt(e.left), nt(e.comparators[0])}
                if sides == {'_not_in_mapping', getsrc}:
                    miss = t
        if miss is None:
            problems.append('no hit/miss test of the probe against the sentinel')
            continue
        unc = [e for e in ps.events if e.kind == 'call' and
               nt(e.r.func) == 'self.%s' % uncached]
        stores = [e for e in ps.events if e.kind == 'store'
                  and nt(e.val) not in ('{}', 'dict()')]
        if miss:
            n_miss += 1
            if len(unc) != 1:
                problems.append('miss path calls self.%s %d times' % (uncached, len(unc)))
                continue
            args = [nt(a) for a in unc[0].r.args]
            if args != uncached_args or unc[0].r.keywords:
                problems.append('self.%s called with %s (required %s)'
                                % (uncached, args, uncached_args))
            if len(stores) != 1:
                problems.append('miss path has %d stores' % len(stores))
                continue
            st = stores[0]
            tgt = st.r
            if not (isinstance(tgt, ast.Subscript) and nt(tgt.value) == cache
                    and nt(tgt.slice) == key):
                problems.append('stores into `%s` but probed `%s[%s]`'
                                % (nt(tgt), cache, key))
            if nt(st.val) != nt(unc[0].r):
                problems.append('the cache is filled with `%s`, not with the value of '
                                'self.%s(...)' % (nt(st.val)[:60], uncached))
            value = nt(unc[0].r)
        else:
            n_hit += 1
            if unc or stores:
                problems.append('hit path calls self.%s / stores (%d/%d)'
                                % (uncached, len(unc), len(stores)))
            value = getsrc
        if ps.kind == 'raise':
            continue
        ret = nt(ps.ret)
        if default_handling:
            isnone = fact_about(ps, value)
            if ret == 'default':
                if isnone is not True:
                    problems.append('returns default on a path where the result is '
                                    'not known to be None')
            elif ret == value:
                if isnone is not False:
                    problems.append('returns the result without the None -> default '
                                    'test')
            else:
                problems.append('returns `%s`' % ret[:60])
        else:
            if ret != value:
                problems.append('returns `%s` (required the cached/computed value)'
                                % ret[:60])
    if not n_hit or not n_miss:
        problems.append('hit paths %d, miss paths %d' % (n_hit, n_miss))
    rep.check(rule, site, not problems,
              'on all %d normal paths: one probe of %s keyed %s; miss -> '
              'self.%s(%s) stored under the same key, hit -> neither; %s'
              % (len(ss), cache_expr, key_kind, uncached, ', '.join(uncached_args),
                 'None -> default' if default_handling else 'value returned as is')
              if not problems else {'problems': sorted(set(problems))[:6]},
              construct='cached-lookup', node=func)
    return not problems


def cache_ok(cache, want):
    if want == '_getcache':
        return cache == 'self._getcache(provided, name)'
    # sub-cache per provided: self._mcache.get(provided) or the fresh {} just stored
    return cache in ('self.%s.get(provided)' % want, '{}', 'dict()',
                     'self.%s[provided]' % want)


def lookup1_spec(rep, rule, func, site):
    ss = normal(summaries(func))
    problems = []
    for ps in ss:
        if ps.kind == 'raise':
            continue
        gets = [e for e in ps.events if e.kind == 'call' and
                isinstance(e.r.func, ast.Attribute) and e.r.func.attr == 'get'
                and len(e.r.args) == 2 and nt(e.r.args[1]) == '_not_in_mapping']
        if len(gets) != 1:
            problems.append('probes %d times' % len(gets))
            continue
        g = gets[0]
        if nt(g.r.func.value) != 'self._getcache(provided, name)' or nt(g.r.args[0]) != 'required':
            problems.append('probe `%s` (required self._getcache(provided, name)'
                            '.get(required, ...))' % nt(g.r))
        getsrc = nt(g.r)
        miss = None
        for c, t, _pos in ps.order:
            if c.startswith(('ITER(', 'EXCEPT(')):
                continue
            e = ast.parse(c, mode='eval').body
            if isinstance(e, ast.Compare) and isinstance(e.ops[0], ast.Is) and \
                    {nt(e.left), nt(e.comparators[0])} == {'_not_in_mapping', getsrc}:
                miss = t
        ret = nt(ps.ret)
        if miss is None and fact_about(ps, getsrc) is True:
            miss = False        # the probe returned None: not the sentinel
        if miss is None:
            problems.append('no hit/miss test')
        elif miss:
            if ret != 'self.lookup((required,), provided, name, default)':
                problems.append('miss returns `%s`' % ret[:70])
        else:
            isnone = fact_about(ps, getsrc)
            if ret == 'default' and isnone is not True:
                problems.append('default returned without the None test')
            elif ret == getsrc and isnone is not False:
                problems.append('cached value returned without the None test')
            elif ret not in ('default', getsrc):
                problems.append('hit returns `%s`' % ret[:60])
    rep.check(rule, site, not problems,
              'miss -> self.lookup((required,), provided, name, default); cached None '
              '-> default; else the cached value (all %d paths)' % len(ss)
              if not problems else {'problems': sorted(set(problems))[:5]},
              construct='table', node=func)


def adapter_hook_spec(rep, rule, func, site):
    ss = normal(summaries(func))
    problems = []
    called = 0
    for ps in ss:
        if ps.kind == 'raise':
            continue
        gets = [e for e in ps.events if e.kind == 'call' and
                isinstance(e.r.func, ast.Attribute) and e.r.func.attr == 'get'
                and len(e.r.args) == 2 and nt(e.r.args[1]) == '_not_in_mapping']
        if len(gets) != 1:
            problems.append('probes %d times' % len(gets))
            continue
        g = gets[0]
        if nt(g.r.func.value) != 'self._getcache(provided, name)' or \
                nt(g.r.args[0]) != 'providedBy(object)':
            problems.append('probe `%s`' % nt(g.r)[:80])
        getsrc = nt(g.r)
        miss = None
        for c, t, _pos in ps.order:
            if c.startswith(('ITER(', 'EXCEPT(')):
                continue
            e = ast.parse(c, mode='eval').body
            if isinstance(e, ast.Compare) and isinstance(e.ops[0], ast.Is) and \
                    {nt(e.left), nt(e.comparators[0])} == {'_not_in_mapping', getsrc}:
                miss = t
        lk = [e for e in ps.events if e.kind == 'call' and nt(e.r.func) == 'self.lookup']
        if miss:
            if len(lk) != 1 or nt(lk[0].r) != 'self.lookup((providedBy(object),), provided, name)':
                problems.append('miss looks up `%s`' % [nt(e.r) for e in lk])
                continue
            factory = nt(lk[0].r)
        else:
            if lk:
                problems.append('hit path calls self.lookup')
            factory = getsrc
        fnone = fact_about(ps, factory)
        fcalls = [e for e in ps.events if e.kind == 'call' and nt(e.r.func) == factory]
        ret = nt(ps.ret)
        if fnone is True:
            if fcalls or ret != 'default':
                problems.append('no factory: must return default without calling '
                                '(returns `%s`)' % ret[:50])
            continue
        if fnone is None:
            problems.append('factory used without the `is None` test')
            continue
        if len(fcalls) != 1:
            problems.append('factory called %d times' % len(fcalls))
            continue
        called += 1
        sup = ps.fact('isinstance(object, super)')
        arg = [nt(a) for a in fcalls[0].r.args]
        want = ['object.__self__'] if sup else ['object']
        if sup is None or arg != want:
            problems.append('factory called with %s under isinstance(object, super) '
                            '== %s (required %s)' % (arg, sup, want))
        res = nt(fcalls[0].r)
        rnone = fact_about(ps, res)
        if ret == 'default' and rnone is not True:
            problems.append('default returned without the result-None test')
        elif ret == res and rnone is not False:
            problems.append('result returned without the None test')
        elif ret not in ('default', res):
            problems.append('returns `%s`' % ret[:60])
    if not called:
        problems.append('no path calls the factory')
    rep.check(rule, site, not problems,
              'probe keyed providedBy(object); miss -> self.lookup((providedBy(object),), '
              'provided, name); no factory -> default; factory(object) with super '
              'proxies unwrapped; None result -> default (all %d paths)' % len(ss)
              if not problems else {'problems': sorted(set(problems))[:5]},
              construct='table', node=func)


# ---------------------------------------------------------------------------
# walkers

def params(func):
    return [a.arg for a in func.args.args]


class Walker:
    """recursive/leaf loops of _lookup/_lookupAll/_subscriptions, wherever
    they are nested."""

    def __init__(self, func):
        self.f = func
        self.ps = params(func)
        self.comp, self.specs, self.prov = self.ps[0], self.ps[1], self.ps[2]
        self.i, self.l = self.ps[-2], self.ps[-1]
        self.cfg = cfg_of(func)
        self.rec = []
        self.leaf = []
        for lp in walk_local(func):
            if not isinstance(lp, ast.For):
                continue
            src, d = iter_polarity(lp.iter, func)
            if match('%s[%s].__sro__' % (self.specs, self.i), src) is not None:
                self.rec.append((lp, d, src))
            elif isinstance(src, ast.Name) and src.id == self.prov:
                self.leaf.append((lp, d, src))
            else:
                self.other = getattr(self, 'other', []) + [(lp, d, src)]

    def guard(self, lp, recursive):
        n = self.cfg.node_of(lp)
        return guarded(self.cfg, n, '%s < %s' % (self.i, self.l), recursive)

    def probe_exact(self, lp):
        var = lp.target.id if isinstance(lp.target, ast.Name) else None
        probes = []
        for n in walk_local(lp):
            if isinstance(n, ast.Call):
                f = n.func
                if isinstance(f, ast.Name):
                    f = resolve_local(self.f, f)
                if isinstance(f, ast.Attribute) and f.attr == 'get' and \
                        isinstance(f.value, ast.Name) and f.value.id == self.comp and n.args:
                    probes.append(n.args[0])
            elif isinstance(n, ast.Subscript) and isinstance(n.value, ast.Name) \
                    and n.value.id == self.comp and isinstance(n.ctx, ast.Load):
                probes.append(n.slice)
        ok = bool(probes) and all(isinstance(p, ast.Name) and p.id == var for p in probes)
        return ok, [norm_src(p) for p in probes]

    def exits(self, lp):
        return [n for n in walk_local(lp) if isinstance(n, (ast.Return, ast.Break))]

    def recursion(self, lp):
        recs = [c for c in calls_in(lp) if isinstance(c.func, ast.Name)
                and c.func.id == self.f.name]
        if len(recs) != 1:
            return False, 'recursive calls: %d' % len(recs)
        c = recs[0]
        if len(c.args) != len(self.ps) or c.keywords:
            return False, 'recursive call arity'
        node = self.cfg.node_of(c)
        from ..facts import resolve
        for k, pn in enumerate(self.ps):
            a = c.args[k]
            if pn == self.comp:
                if isinstance(a, ast.Name) and a.id == self.comp:
                    return False, 'recursion does not descend'
            elif pn == self.i:
                ra = resolve(self.cfg, node, a)
                if match('%s + 1' % self.i, ra) is None and match('1 + %s' % self.i, ra) is None:
                    return False, 'position argument `%s` (required %s + 1)' % (
                        norm_src(ra), self.i)
            else:
                if not (isinstance(a, ast.Name) and a.id == pn):
                    return False, 'argument %s changed to `%s`' % (pn, norm_src(a))
        return True, 'recursion passes %s + 1 and everything else unchanged' % self.i

    def first_hit(self, lp):
        """every early exit in the loop happens iff a probed result is not
        None, and returns that result."""
        exits = self.exits(lp)
        if not exits:
            return False, 'no early exit in the loop (not first-hit)'
        ln = self.cfg.node_of(lp)
        for ex in exits:
            n = self.cfg.node_of(ex)
            if isinstance(ex, ast.Return):
                v = ex.value
                if not isinstance(v, ast.Name):
                    return False, 'returns `%s` from inside the walk' % norm_src(v)
                if not guarded(self.cfg, n, '%s is None' % v.id, False, start=ln):
                    return False, ('`return %s` is not reached only when %s is not None'
                                   % (v.id, v.id))
            else:
                return False, 'break inside the walk'
        # and a non-None result always leads to the exit: the `is None` tests
        # F edge must reach only returns of that variable
        return True, 'early exit iff the result is not None, returning it'


def check_walkers(rep, rule, func, kind, site=None, rule_leaf=None):
    """kind: 'first' (_lookup), 'update' (_lookupAll), 'extend' (_subscriptions).

    Decided over the path summaries of the walker: for each path the branch
    (i < l or not), the sequence walked, the probe, what is done with a probed
    container, and whether the walk goes on afterwards."""
    from ..sympath import summaries as _s, normal as _n
    site = site or 'adapter.' + func.name
    ps_ = params(func)
    comp, specs, prov = ps_[0], ps_[1], ps_[2]
    i, l = ps_[-2], ps_[-1]
    name_p = 'name' if 'name' in ps_ else None
    res_p = 'result' if 'result' in ps_ else None
    rev = kind != 'first'
    cfg = cfg_of(func)
    P = {k: [] for k in ('split', 'direction', 'probe', 'recursion', 'leaf',
                         'walk', 'miss')}
    seen = set()

    def dirs(base):
        fwd = [base, 'iter(%s)' % base]
        bwd = ['reversed(%s)' % base, '%s[::-1]' % base]
        return (bwd, fwd) if rev else (fwd, bwd)
    for ps in _n(_s(func)):
        br = ps.facts.get('%s < %s' % (i, l))
        calls = [e for e in ps.events if e.kind == 'call' and not (
            isinstance(e.r.func, ast.Name) and e.r.func.id in ('reversed', 'iter'))]
        iters = [(c[5:-1], t, k) for k, (c, t, p) in enumerate(ps.order)
                 if c.startswith('ITER(')]
        if br is None:
            if iters or calls:
                P['split'].append('a walk or probe that is not decided by %s < %s' % (i, l))
            continue
        base = '%s[%s].__sro__' % (specs, i) if br else prov
        good, wrong = dirs(base)
        mine = [(c, t, k) for c, t, k in iters if c in good]
        for c, t, k in iters:
            if c in wrong:
                P['direction'].append(
                    'walk over %s is `%s` (required %s: %s)' % (
                        'the required spec\'s __sro__' if br else 'the extendors',
                        c, 'reversed' if rev else 'forward',
                        'less specific / less general first so that the most specific '
                        'wins last' if rev else 'most specific / most general first'))
            elif c not in good:
                P['split'].append('with %s < %s %s walks `%s`' % (i, l, br, c[:60]))
        if len(mine) != 1:
            if not [1 for c, t, k in iters if c in wrong]:
                P['split'].append('with %s < %s %s: %d walks over `%s`'
                                  % (i, l, br, len(mine), base))
            continue
        S, ran, k_it = mine[0]
        E = 'EACH(%s)' % S
        probe = '%s.get(%s)' % (comp, E)
        texts = [nt(e.r) for e in calls]
        if not ran:
            if texts:
                P['walk'].append('calls `%s` although the walk is empty' % texts[0][:60])
            if kind == 'first' and nt(ps.ret) != 'None':
                P['miss'].append('an empty walk yields `%s`' % nt(ps.ret)[:40])
            continue
        if not texts or texts[0] != probe:
            P['probe'].append('probes with `%s` (required `%s`)'
                              % (texts[0][:70] if texts else None, probe))
            continue
        pt = ps.facts.get(probe)
        if pt is None and ps.facts.get(probe + ' is None') is not None:
            pt = not ps.facts[probe + ' is None']
        last_k = len(ps.order) - 1
        goes_on = ps.reenters_loop(cfg, last_k)
        if pt is False:
            seen.add(('skip', br))
            if texts[1:]:
                P['probe'].append('uses an empty/missing container: `%s`' % texts[1][:60])
            if not goes_on:
                P['walk'].append('the walk stops at a missing container')
            continue
        if pt is None:
            P['probe'].append('the probed container is used without a test')
            continue
        if br:
            want = [nt(ast.parse('%s(%s)' % (func.name, ', '.join(
                [probe] + list(ps_[1:-2]) + ['%s + 1' % i, l])), mode='eval').body)]
            want.append(nt(ast.parse('%s(%s)' % (func.name, ', '.join(
                [probe] + list(ps_[1:-2]) + ['1 + %s' % i, l])), mode='eval').body))
            if len(texts) != 2 or texts[1] not in want:
                P['recursion'].append('recursive step is `%s` (required `%s`)'
                                      % ([t[:110] for t in texts[1:]], want[0]))
                continue
            deeper = texts[1]
        else:
            deeper = '%s.get(%s)' % (probe, name_p) if kind != 'update' else None
        if kind == 'first':
            if not br and (len(texts) != 2 or texts[1] != deeper):
                P['leaf'].append('leaf step is `%s` (required the exact name: `%s`)'
                                 % ([t[:80] for t in texts[1:]], deeper))
                continue
            hit = ps.facts.get(deeper + ' is None')
            if hit is None:
                P['walk'].append('a result is not tested against None (%s)'
                                 % ('recursive' if br else 'leaf'))
            elif hit is False:
                seen.add(('hit', br))
                if ps.kind != 'return' or nt(ps.ret) != deeper:
                    P['walk'].append('a found result is not returned (returns `%s`)'
                                     % nt(ps.ret)[:60])
            else:
                seen.add(('miss', br))
                if not goes_on:
                    P['walk'].append('the walk stops at the first miss')
                if nt(ps.ret) != 'None':
                    P['miss'].append('a walk without a hit yields `%s`' % nt(ps.ret)[:40])
            continue
        # exhaustive collectors
        if br:
            seen.add(('hit', br))
        elif kind == 'update':
            if texts[1:] != ['%s.update(%s)' % (res_p, probe)]:
                P['leaf'].append('leaf step is `%s` (required %s.update(<container>): '
                                 'later, more specific, entries win per name)'
                                 % ([t[:80] for t in texts[1:]], res_p))
                continue
            seen.add(('hit', br))
        else:
            ext = '%s.extend(%s)' % (res_p, deeper)
            lt = ps.facts.get(deeper)
            augs = [nt(e.r) + ' += ' + nt(e.val.right) for e in ps.events
                    if e.kind == 'aug' and isinstance(e.val, ast.BinOp)]
            if texts[1:] == [deeper, ext] and lt is True or \
                    texts[1:] == ['%s.extend(%s.get(%s, ()))' % (res_p, probe, name_p)]:
                seen.add(('hit', br))
            elif texts[1:] == [deeper] and lt is False:
                seen.add(('miss', br))
            else:
                P['leaf'].append('leaf step is `%s` (required: extend %s with the '
                                 'leaf stored under the exact name)'
                                 % ([t[:80] for t in texts[1:]], res_p))
                continue
        if not goes_on:
            P['walk'].append('the walk ends early (every container must be visited)')
    need = {('hit', True), ('hit', False), ('skip', True), ('skip', False)}
    if need - seen and not any(P.values()):
        P['split'].append('no path for %s' % sorted(need - seen))
    msgs = {
        'split': 'the recursive walk (over %s[%s].__sro__) runs iff %s < %s, the leaf '
                 'walk (over the extendor list `%s`) iff not' % (specs, i, i, l, prov),
        'direction': 'both walks run %s' % ('in reverse' if rev else 'forward'),
        'probe': 'each walk probes %s.get(<loop item>) and skips missing containers'
                 % comp,
        'recursion': 'recursion passes the probed container, %s + 1 and everything '
                     'else unchanged' % i,
        'leaf': {'first': 'the leaf walk looks up the exact name',
                 'update': 'the leaf walk merges the container into the result',
                 'extend': 'the leaf walk extends the result with the named leaf'}[kind],
        'walk': 'first hit is returned, misses continue' if kind == 'first'
                else 'both walks visit everything',
        'miss': 'a walk without a hit yields None',
    }
    for c in ('split', 'direction', 'probe', 'recursion', 'leaf', 'walk', 'miss'):
        if c == 'miss' and kind != 'first':
            continue
        rep.check(rule, site, not P[c], msgs[c] if not P[c] else
                  {'problems': sorted(set(P[c]))[:3]}, construct=c, node=func)


# ---------------------------------------------------------------------------
# registry walks (_uncached_*)

def registry_walk_spec(rep, rule, func, helper, storage, direction, first_hit,
                       tail, returns, site=None):
    """Over all paths: registries come from self._registry.ro only; the helper
    is applied to <reg>.<storage>[len(required)] with (required, extendors of
    that registry for provided, *tail); it is skipped only when the registry
    has no storage of that order or no extendors; first-hit / exhaustive."""
    site = site or 'AdapterLookupBase.' + func.name
    ss = normal(summaries(func))
    lps = [lp for lp in walk_local(func) if isinstance(lp, ast.For)]
    srcs = []
    for lp in lps:
        src, d = iter_polarity(lp.iter, func)
        srcs.append((lp, norm_src(src), d))
    walks = [x for x in srcs if x[1] == 'self._registry.ro']
    bases = [n for n in walk_local(func) if isinstance(n, ast.Attribute)
             and n.attr == '__bases__']
    rep.check(rule, site, len(walks) == 1 and not bases,
              'registries are taken from self._registry.ro and nowhere else '
              '(loops %s, __bases__ reads %d)' % ([s for _, s, _ in srcs], len(bases)),
              construct='source', node=func)
    if len(walks) != 1:
        return
    lp, _, d = walks[0]
    rep.check(rule, site, d == direction,
              'walk over self._registry.ro is %s (required %s)' % (d, direction),
              construct='direction', node=lp)
    it = 'self._registry.ro' if d == 'fwd' else None
    problems = []
    called = 0
    allowed_prefix = None
    for ps in ss:
        hc = [e for e in ps.events if e.kind == 'call' and nt(e.r.func) == helper]
        for e in hc:
            called += 1
            args = [nt(a) for a in e.r.args]
            reg = None
            m = match('EACH($it).%s[len(required)]' % storage,
                      ast.parse(args[0], mode='eval').body)
            if m is None:
                problems.append('helper walks `%s` (required <registry>.%s[len(required)])'
                                % (args[0][:70], storage))
                continue
            each = 'EACH(%s)' % nt(m['it'])
            if iter_polarity(m['it'])[0] is None or \
                    norm_src(iter_polarity(m['it'])[0]) != 'self._registry.ro':
                problems.append('storage of `%s`' % each)
            ext_ok = {'%s._v_lookup._extendors.get(provided)' % each}
            if storage == '_subscribers':
                ext_ok |= {'(provided,)', '(None,)'}
            want_rest = ['required', None] + tail
            rest = args[1:]
            if len(rest) != len(want_rest):
                problems.append('helper arity %d' % len(args))
                continue
            for got, want in zip(rest, want_rest):
                if want is None:
                    if got not in ext_ok:
                        problems.append('extendors argument `%s`' % got[:70])
                elif want == 'RESULT':
                    pass
                elif got != want:
                    problems.append('helper argument `%s` (required `%s`)' % (got[:50], want))
            # guards of the call: the only conditions on this registry that
            # may decide whether the helper is applied
            pos = ps.events.index(e)
            for c, t, cpos in ps.order:
                if cpos > pos or c.startswith(('ITER(', 'EXCEPT(')):
                    continue
                cc = nt(ast.parse(c, mode='eval').body)
                if each not in cc:
                    continue
                if helper + '(' in cc:
                    continue          # test on an earlier helper result
                okc = (cc == 'len(required) < len(%s.%s)' % (each, storage) and t) or \
                    (cc == '%s._v_lookup._extendors.get(provided)' % each and t) or \
                    (cc == '%s._v_lookup._extendors.get(provided) is None' % each and not t)
                if not okc:
                    problems.append('registry selected by `%s` == %s' % (cc[:70], t))
        sub = ps.calls('self._subscribe(*$r)')
        if ps.kind != 'raise' and (len(sub) != 1 or nt(sub[0].r.args[0].value) != 'required'):
            problems.append('self._subscribe(*required) called %d times on a path' % len(sub))
        if ps.kind == 'raise':
            continue
        ret = nt(ps.ret)
        if first_hit:
            hres = [nt(e.r) for e in hc]
            if hc:
                last = hres[-1]
                isnone = fact_about(ps, last)
                # the result may be tested for None only: any other condition
                # on it (its truth value, a comparison) lets a registered
                # falsy object fall through to the next registry
                for c, t, _p in ps.order:
                    try:
                        cc = nt(ast.parse(c, mode='eval').body)
                    except SyntaxError:
                        continue
                    if last in cc and cc != '%s is None' % last:
                        problems.append('the walk goes on or stops depending on `%s`, '
                                        'not on the result being None'
                                        % cc.replace(last, '<result>')[:60])
                if isnone is False and ret != last:
                    problems.append('a non-None result is not returned (returns `%s`)' % ret[:40])
                if isnone is True and ret not in ('None',) and ret != last:
                    problems.append('after a None result returns `%s`' % ret[:40])
                if isnone is None and ret != last:
                    problems.append('helper result not tested / returned')
                tested_somehow = any(c_.endswith(' is None') and (helper + '(') in c_
                                     for c_, t_, p_ in ps.order)
                if isnone is None and ret == last and not tested_somehow:
                    # inside the walk an untested result is overwritten by the next
                    # registry that applies: the earliest registry no longer wins
                    problems.append('the result of %s is never tested against None: the '
                                    'walk goes on and a later registry overwrites a hit'
                                    % helper)
                if isnone is True:
                    # a miss must be able to go on to the next registry
                    ks = [k_ for k_, (c_, t_, p_) in enumerate(ps.order)
                          if t_ is True and c_.endswith(' is None')]
                    try:
                        from ..cfg import cfg_of as _cfg_of
                        if ks and not ps.reenters_loop(_cfg_of(func), ks[-1]):
                            problems.append('after a None result the walk cannot reach the '
                                            'next registry (the loop is left unconditionally)')
                    except Exception:
                        pass
            elif ret != 'None':
                problems.append('no registry applied but returns `%s`' % ret[:40])
        else:
            if returns and ret != returns:
                problems.append('returns `%s` (required %s)' % (ret[:50], returns))
    if not called:
        problems.append('no path applies %s' % helper)
    rep.check(rule, site, not problems,
              '%s(<registry>.%s[len(required)], required, <its extendors for '
              'provided>, %s) for each registry, skipped only without storage of '
              'that order / without extendors; %s; _subscribe(*required) on every '
              'path' % (helper, storage, ', '.join(tail),
                        'first non-None result returned' if first_hit else 'all visited')
              if not problems else {'problems': sorted(set(problems))[:6]},
              construct='walk', node=func)
    if first_hit:
        exits = [n for n in walk_local(lp) if isinstance(n, (ast.Break, ast.Return))]
        rep.check(rule, site, bool(exits), 'the walk stops at the first hit',
                  construct='first-hit', node=lp)
    else:
        exits = [n for n in walk_local(lp) if isinstance(n, (ast.Break, ast.Return))]
        rep.check(rule, site, not exits, 'every registry is visited (exits %s)'
                  % [norm_src(e) for e in exits], construct='all', node=lp)


# ---------------------------------------------------------------------------
# AdapterLookupBase.names / queryMultiAdapter / subscribers

def names_spec(rep, rule, func, site):
    ss = normal(summaries(func))
    problems = []
    want_call = 'self.lookupAll(required, provided)'
    for ps in ss:
        la = [e for e in ps.events if e.kind == 'call' and nt(e.r) == want_call]
        if len(la) != 1:
            problems.append('lookupAll called %d times' % len(la))
        ret = nt(ps.ret)
        if ret.startswith('[') and ' for ' in ret:
            e = ps.ret
            m = match('[$c[0] for $c in self.lookupAll(required, provided)]',
                      ast.parse(ret, mode='eval').body)
            if m is None:
                problems.append('returns `%s`' % ret[:70])
        elif ret in ('[]', 'list()'):
            ap = [e for e in ps.events if e.kind == 'call' and
                  isinstance(e.r.func, ast.Attribute) and e.r.func.attr == 'append']
            looped = any(t and c == 'ITER(%s)' % want_call for c, t, p in ps.order)
            if looped and not (len(ap) == 1 and nt(ap[0].r.args[0]) ==
                               'EACH(%s)[0]' % want_call):
                problems.append('collects `%s`' % [nt(a.r) for a in ap])
        else:
            problems.append('returns `%s`' % ret[:70])
    loops = [lp for lp in walk_local(func) if isinstance(lp, ast.For)]
    for lp in loops:
        if iter_polarity(lp.iter, func)[1] != 'fwd':
            problems.append('iterates lookupAll() backwards')
    rep.check(rule, site, not problems,
              'names = first components of lookupAll(required, provided), in order'
              if not problems else {'problems': sorted(set(problems))[:4]},
              construct='delegate', node=func)


def query_multi_spec(rep, rule, func, site):
    ss = normal(summaries(func))
    problems = []
    lk = ntext('self.lookup([providedBy(o) for o in objects], provided, name)')
    called = 0
    for ps in ss:
        if ps.kind == 'raise':
            continue
        lks = [e for e in ps.events if e.kind == 'call' and nt(e.r.func) == 'self.lookup']
        if len(lks) != 1 or nt(lks[0].r) not in (
                lk, ntext('self.lookup(tuple([providedBy(o) for o in objects]), provided, name)')):
            problems.append('looks up `%s`' % [nt(e.r)[:80] for e in lks])
            continue
        factory = nt(lks[0].r)
        fnone = fact_about(ps, factory)
        fc = [e for e in ps.events if e.kind == 'call' and nt(e.r.func) == factory]
        ret = nt(ps.ret)
        if fnone is True:
            if fc or ret != 'default':
                problems.append('no factory must return default without a call')
            continue
        if fnone is None or len(fc) != 1:
            problems.append('factory called %d times / not tested' % len(fc))
            continue
        called += 1
        a = fc[0].r.args
        okargs = False
        if len(a) == 1 and isinstance(a[0], ast.Starred) and \
                isinstance(a[0].value, (ast.ListComp, ast.GeneratorExp)) and \
                len(a[0].value.generators) == 1:
            comp = a[0].value
            g = comp.generators[0]
            src, d = iter_polarity(g.iter)
            o = g.target.id if isinstance(g.target, ast.Name) else None
            okargs = nt(src) == 'objects' and d == 'fwd' and not g.ifs and \
                ifexp_table(comp.elt) == {
                    (('isinstance(%s, super)' % o, True),): '%s.__self__' % o,
                    (('isinstance(%s, super)' % o, False),): o}
        if not okargs:
            problems.append('factory arguments `%s`' % nt(fc[0].r)[:90])
        res = nt(fc[0].r)
        rn = fact_about(ps, res)
        if not ((ret == 'default' and rn is True) or (ret == res and rn is False)):
            problems.append('returns `%s` with result-is-None == %s' % (ret[:40], rn))
    if not called:
        problems.append('factory never called')
    rep.check(rule, site, not problems,
              'factory = lookup(providedBy of each object, in order); called with the '
              'objects in order, super proxies unwrapped; None factory/result -> default'
              if not problems else {'problems': sorted(set(problems))[:4]},
              construct='table', node=func)


def subscribers_spec(rep, rule, func, site):
    ss = normal(summaries(func))
    problems = []
    sub = ntext('self.subscriptions([providedBy(o) for o in objects], provided)')
    called_h = called_a = 0
    for ps in ss:
        if ps.kind == 'raise':
            continue
        sc = [e for e in ps.events if e.kind == 'call' and nt(e.r.func) == 'self.subscriptions']
        if len(sc) != 1 or nt(sc[0].r) != sub:
            problems.append('subscriptions looked up as %s' % [nt(e.r)[:80] for e in sc])
            continue
        pn = ps.fact('provided is None')
        if pn is None:
            problems.append('no `provided is None` split on a path')
            continue
        each = 'EACH(%s)' % sub
        calls = [e for e in ps.events if e.kind == 'call' and nt(e.r.func) == each]
        looped = any(t and c == 'ITER(%s)' % sub for c, t, p in ps.order)
        if looped:
            if len(calls) != 1 or nt(calls[0].r) != '%s(*objects)' % each:
                problems.append('subscription called as %s' % [nt(c.r)[:60] for c in calls])
                continue
        ret = nt(ps.ret)
        if pn:
            called_h += looped
            if ret != '()':
                problems.append('handlers (provided None) must return (): `%s`' % ret[:30])
        else:
            called_a += looped
            comp_ok = False
            r_ = ps.ret
            if isinstance(r_, ast.ListComp) and len(r_.generators) == 1:
                g_ = r_.generators[0]
                inner = g_.iter
                if isinstance(g_.target, ast.Name) and nt(r_.elt) == g_.target.id and \
                        [nt(c) for c in g_.ifs] in (['%s is not None' % g_.target.id],) and \
                        isinstance(inner, (ast.ListComp, ast.GeneratorExp)) and \
                        len(inner.generators) == 1 and not inner.generators[0].ifs and \
                        isinstance(inner.generators[0].target, ast.Name) and \
                        nt(inner.generators[0].iter) == sub and \
                        nt(inner.elt) == '%s(*objects)' % inner.generators[0].target.id:
                    comp_ok = True
                    called_a += 1
            if comp_ok:
                continue
            if ret not in ('[]', 'list()'):
                problems.append('returns `%s`' % ret[:40])
            if looped:
                res = nt(calls[0].r)
                rn = fact_about(ps, res)
                ap = [e for e in ps.events if e.kind == 'call' and
                      isinstance(e.r.func, ast.Attribute) and e.r.func.attr == 'append']
                if rn is False and not (len(ap) == 1 and nt(ap[0].r.args[0]) == res):
                    problems.append('non-None subscriber not appended')
                if rn is True and ap:
                    problems.append('None subscriber appended')
                if rn is None:
                    problems.append('subscriber result not tested for None')
    for lp in walk_local(func):
        if isinstance(lp, ast.For):
            if iter_polarity(lp.iter)[1] != 'fwd':
                problems.append('subscriptions iterated backwards')
            if [n for n in walk_local(lp) if isinstance(n, (ast.Break, ast.Return))]:
                problems.append('early exit in the subscriber loop')
    if not called_h or not called_a:
        problems.append('handler/adapter branches: %d/%d' % (called_h, called_a))
    rep.check(rule, site, not problems,
              'provided None: every subscription called with *objects, returns (); '
              'else non-None results kept in subscription order'
              if not problems else {'problems': sorted(set(problems))[:4]},
              construct='table', node=func)


# ---------------------------------------------------------------------------
# fetch order (Python twin of C11 B5)

_INERT = ('len', 'isinstance')


def fetch_order_spec(rep, rule, func, site):
    """Between fetching a cache dictionary and probing it nothing may run that
    can call back into Python code of the application (iterating `required`,
    `providedBy(object)`): such code can change the registry, `changed()`
    then clears the *outer* dictionary, and the dictionary already in hand is
    a detached one that still answers with the old entry."""
    problems = []
    n = 0
    for ps in normal(summaries(func)):
        probes = [i for i, e in enumerate(ps.events) if e.kind == 'call' and
                  isinstance(e.r.func, ast.Attribute) and e.r.func.attr == 'get'
                  and len(e.r.args) == 2 and nt(e.r.args[1]) == '_not_in_mapping']
        for ip in probes:
            cache = nt(ps.events[ip].r.func.value)
            fetch = [i for i, e in enumerate(ps.events[:ip]) if e.kind == 'call'
                     and nt(e.r) == cache]
            if not fetch:
                # created on this path: {} stored into the outer dictionary
                fetch = [i for i, e in enumerate(ps.events[:ip]) if e.kind == 'store'
                         and nt(e.val) == cache]
            if not fetch:
                problems.append('probe of `%s`: fetch not found' % cache[:50])
                continue
            n += 1
            # the earliest event that produced the dictionary in hand
            first = fetch[0]
            if cache.startswith('self._getcache('):
                first = fetch[-1]
            def inert(c):
                if dotted(c.func) in _INERT:
                    return True
                # tuple(<a tuple>) returns its argument
                return dotted(c.func) == 'tuple' and len(c.args) == 1 and \
                    isinstance(c.args[0], ast.Call) and dotted(c.args[0].func) == 'tuple'
            between = [e for e in ps.events[first + 1:ip] if e.kind == 'call' and
                       not inert(e.r) and nt(e.r) != cache]
            if between:
                problems.append('`%s` runs between fetching the cache and probing it'
                                % nt(between[0].r)[:60])
    if not n:
        problems.append('no cache probe found')
    rep.check(rule, site, not problems,
              'nothing that can run application code (resolving `required`, '
              'providedBy(object)) comes between fetching the cache dictionary and '
              'probing it (%d probes)' % n if not problems else
              {'problems': sorted(set(problems))[:3]}, construct='fetch-order', node=func)


# ---------------------------------------------------------------------------
# generic: events required on every normal path, in order

def ev_matcher(pattern):
    """predicate over a summary event from a source pattern: a call pattern
    (`self.changed($$a)`), a store (`self.x = $v`), an augmented store
    (`self.n += $k`) or a deletion (`del self.x`).  Patterns are matched
    against RESOLVED expressions, so local aliases do not matter."""
    import ast as _a
    try:
        st = _a.parse(_prep_pat(pattern)).body[0]
    except SyntaxError:
        raise AnalysisError('bad pattern %r' % pattern)
    if isinstance(st, _a.Expr):
        return lambda e: e.kind == 'call' and match(pattern, e.r) is not None
    if isinstance(st, _a.Assign):
        tgt = pattern.split('=', 1)[0].strip()
        val = pattern.split('=', 1)[1].strip()
        return lambda e: e.kind == 'store' and match(tgt, e.r) is not None and \
            e.val is not None and match(val, e.val) is not None
    if isinstance(st, _a.AugAssign):
        tgt = pattern.split('+=')[0].split('-=')[0].strip()
        return lambda e: (e.kind == 'aug' and match(tgt, e.r) is not None) or (
            e.kind == 'store' and match(tgt, e.r) is not None)
    if isinstance(st, _a.Delete):
        tgt = pattern[4:].strip()
        return lambda e: e.kind == 'del' and match(tgt, e.r) is not None
    raise AnalysisError('unsupported pattern %r' % pattern)


def _prep_pat(p):
    import re
    return re.sub(r'\$\$?(\w+)', r'MV_\1', p)


def paths_have(func, alternatives, lists=False):
    """(ok, witness): every normal path has an event matching one of the
    alternative patterns"""
    preds = [ev_matcher(p) for p in alternatives]
    ss = normal(summaries(func))
    if not ss:
        return False, 'no normal path'
    for ps in ss:
        if not any(p(e) for e in ps.events for p in preds):
            return False, {'missing': alternatives[0],
                           'path_facts': [(c[:60], t) for c, t, p in ps.order][:5],
                           'path_events': [repr(e)[:60] for e in ps.events][:6]}
    return True, None


def paths_order(func, first_alts, then_alts):
    """on every normal path, every event matching `then` is preceded by one
    matching `first`"""
    a = [ev_matcher(p) for p in first_alts]
    b = [ev_matcher(p) for p in then_alts]
    for ps in normal(summaries(func)):
        seen = False
        for e in ps.events:
            if any(p(e) for p in a):
                seen = True
            elif any(p(e) for p in b) and not seen:
                return False
    return True
