"""C08 - all lookup entry points agree with lookup() and subscriptions()."""
import ast

from ..core import AnalysisError, norm_src
from ..pyfront import (find_def, find_all, match, walk_local, dotted, same,
                       calls_in, names_in, ClassTable, class_attr_assign)
from ..flowq import (iter_polarity, resolve_local, loops_over, pred_of,
                     witness_path, nodes_with, reaching_defs, def_value,
                     any_pred)
from ..cfg import cfg_of, header_expr
from . import shared


def sig(func):
    a = func.args
    names = [x.arg for x in a.args]
    nd = len(a.defaults)
    defaults = [None] * (len(names) - nd) + [norm_src(d) for d in a.defaults]
    return list(zip(names, defaults))


def name_guard(rep, rule, func, site):
    """the isinstance(name, str) test (any spelling) sends non-str names to
    `raise ValueError` and guards every cache access / lookup."""
    from ..facts import test_nodes, guarded
    cfg = cfg_of(func)
    tn = test_nodes(cfg, 'isinstance(name, str)')
    ok = False
    detail = 'no isinstance(name, str) test'
    if tn:
        okraise = True
        for n, pol in tn:
            lab = 'F' if pol else 'T'          # edge on which name is not a str
            nxt = [m for m, l in n.succ if l == lab]
            for m in nxt:
                r = cfg.reach(m, include_start=True)
                raises = [x for x in cfg.nodes if x.id in r and isinstance(x.ast, ast.Raise)
                          and x.ast.exc is not None and
                          match('ValueError($$a)', x.ast.exc) is not None]
                if cfg.exit.id in r or not raises:
                    okraise = False
        access = [n for n in cfg.nodes if n.ast is not None and header_expr(n) is not None
                  and n.kind != 'test' or (n.kind == 'test' and n.ast is not None and
                                           not any(n is t for t, _ in tn))]
        access = [n for n in access if header_expr(n) is not None and (
            find_all(header_expr(n), 'self._getcache($$a)') or
            find_all(header_expr(n), 'self._cache') or
            find_all(header_expr(n), 'self.lookup($$a)') or
            find_all(header_expr(n), 'providedBy($$a)'))]
        dom = bool(access) and all(
            guarded(cfg, n, 'isinstance(name, str)', True) for n in access)
        ok = okraise and dom
        detail = ('non-str names always end in raise ValueError (%s); every cache '
                  'access/lookup (%d sites) is reached only with a str name (%s)'
                  % (okraise, len(access), dom))
    rep.check(rule, site, ok, detail, construct='name-guard', node=func)


def run(rep):
    repo = rep.repo
    mod = repo.module('adapter.py')
    rep.rule('R08.1', 'delegation and argument permutation of every entry '
             'point (lookup1 -> lookup((required,), ...); queryAdapter -> '
             'adapter_hook(provided, object, ...); adapter_hook looks up '
             '(providedBy(object),); queryMultiAdapter / subscribers map '
             'providedBy over the objects in order; names = first components '
             'of lookupAll)', floor=8)
    rep.rule('R08.2', 'cache-key agreement: lookup stores and reads under '
             'required[0] iff len(required) == 1, else under the tuple; '
             'lookup1 and adapter_hook probe the same _getcache(provided, '
             'name) container with the bare specification', floor=4)
    rep.rule('R08.3', 'the name guard (ValueError for non-str names) '
             'dominates every cache access in lookup, lookup1, adapter_hook',
             floor=3)
    rep.rule('R08.4', '_lookupAll polarity: most specific registration wins '
             'per name (same winner as lookup); _uncached_lookupAll: nearest '
             'registry wins', floor=14)
    rep.rule('R08.5', 'result handling: None result -> default (identity '
             'test), factory called with super proxies unwrapped, subscribers '
             'keeps non-None results in order / calls all handlers', floor=5)
    rep.rule('R08.6', 'all nine entry points are delegated from the registry '
             'to its lookup object', floor=1)
    rep.rule('R08.7', 'verifying registries: every entry point (Python '
             'overrides and every VB_* C entry) runs the generation check '
             'before its worker, so all entry points see the same cache state',
             floor=8)
    rep.decline('none - relative to C04/C05/C07')

    lookup = find_def(mod, 'LookupBase.lookup')
    lookup1 = find_def(mod, 'LookupBase.lookup1')
    qa = find_def(mod, 'LookupBase.queryAdapter')
    hook = find_def(mod, 'LookupBase.adapter_hook')
    qma = find_def(mod, 'AdapterLookupBase.queryMultiAdapter')
    names = find_def(mod, 'AdapterLookupBase.names')
    subs = find_def(mod, 'AdapterLookupBase.subscribers')

    # ---- signatures (positional protocol used by the delegations) ---------
    want = {
        'lookup': [('self', None), ('required', None), ('provided', None),
                   ('name', "''"), ('default', 'None')],
        'lookup1': [('self', None), ('required', None), ('provided', None),
                    ('name', "''"), ('default', 'None')],
        'queryAdapter': [('self', None), ('object', None), ('provided', None),
                         ('name', "''"), ('default', 'None')],
        'adapter_hook': [('self', None), ('provided', None), ('object', None),
                         ('name', "''"), ('default', 'None')],
    }
    for f in (lookup, lookup1, qa, hook):
        rep.check('R08.1', 'LookupBase.' + f.name, sig(f) == want[f.name],
                  'signature %s' % sig(f), construct='signature', node=f)

    # ---- R08.1 delegation ---------------------------------------------------
    # lookup1: miss -> lookup((required,), provided, name, default)
    dele = find_all(lookup1, 'self.lookup($$a)')
    ok = len(dele) == 1 and \
        match('self.lookup((required,), provided, name, default)', dele[0][0]) is not None \
        and isinstance(dele[0][0].parent, ast.Return)
    rep.check('R08.1', 'LookupBase.lookup1', ok,
              'cache miss returns self.lookup((required,), provided, name, default): %s'
              % [norm_src(c) for c, _ in dele], construct='delegate', node=lookup1)
    rets = [n for n in walk_local(qa) if isinstance(n, ast.Return)]
    ok = len(rets) == 1 and match(
        'self.adapter_hook(provided, object, name, default)', rets[0].value) is not None
    rep.check('R08.1', 'LookupBase.queryAdapter', ok,
              'returns self.adapter_hook(provided, object, name, default): %s'
              % [norm_src(r.value) for r in rets], construct='delegate', node=qa)
    # adapter_hook
    req = resolve_local(hook, ast.Name(id='required', ctx=ast.Load()))
    okreq = match('providedBy(object)', req) is not None
    dele = find_all(hook, 'self.lookup($$a)')
    okd = len(dele) == 1 and match('self.lookup((required,), provided, name)',
                                   dele[0][0]) is not None
    rep.check('R08.1', 'LookupBase.adapter_hook', okreq and okd,
              'required = %s; miss -> %s' % (norm_src(req),
                                            [norm_src(c) for c, _ in dele]),
              construct='delegate', node=hook)
    # queryMultiAdapter
    dele = find_all(qma, 'self.lookup($$a)')
    ok = len(dele) == 1 and (
        match('self.lookup([providedBy($o) for $o in objects], provided, name)',
              dele[0][0]) is not None or
        match('self.lookup(tuple([providedBy($o) for $o in objects]), provided, name)',
              dele[0][0]) is not None or
        match('self.lookup(list(map(providedBy, objects)), provided, name)',
              dele[0][0]) is not None)
    rep.check('R08.1', 'AdapterLookupBase.queryMultiAdapter', ok,
              'factory = %s' % [norm_src(c) for c, _ in dele],
              construct='delegate', node=qma)
    rets = [n for n in walk_local(names) if isinstance(n, ast.Return)]
    ok = len(rets) == 1 and match(
        '[$c[0] for $c in self.lookupAll(required, provided)]', rets[0].value) is not None
    rep.check('R08.1', 'AdapterLookupBase.names', ok,
              'returns %s' % [norm_src(r.value) for r in rets],
              construct='delegate', node=names)
    dele = find_all(subs, 'self.subscriptions($$a)')
    ok = len(dele) == 1 and (
        match('self.subscriptions([providedBy($o) for $o in objects], provided)',
              dele[0][0]) is not None or
        match('self.subscriptions(list(map(providedBy, objects)), provided)',
              dele[0][0]) is not None)
    rep.check('R08.1', 'AdapterLookupBase.subscribers', ok,
              'subscriptions = %s' % [norm_src(c) for c, _ in dele],
              construct='delegate', node=subs)

    # ---- R08.2 cache key agreement -----------------------------------------
    def cache_from_getcache(f):
        c = resolve_local(f, ast.Name(id='cache', ctx=ast.Load()))
        return match('self._getcache(provided, name)', c) is not None, norm_src(c)
    for f in (lookup, lookup1, hook):
        ok, txt = cache_from_getcache(f)
        rep.check('R08.2', 'LookupBase.' + f.name, ok,
                  'cache container = %s (required self._getcache(provided, name))'
                  % txt, construct='container', node=f)
    # lookup: reads and writes
    reads = find_all(lookup, 'cache.get($k, $$d)')
    writes = [n for n in walk_local(lookup) if isinstance(n, ast.Assign)
              and match('cache[$k]', n.targets[0]) is not None]
    def key_ok(node, key):
        """key is required[0] under len(required)==1 (T branch) or
        tuple(required)/required otherwise."""
        st = shared.stmt_of(node)
        g = st.parent
        if not isinstance(g, ast.If):
            return False
        t = match('len(required) == 1', g.test) is not None
        if not t:
            return False
        if st in g.body:
            return match('required[0]', key) is not None
        return match('tuple(required)', key) is not None or \
            match('required', key) is not None
    okr = len(reads) == 2 and all(key_ok(c, e['k']) for c, e in reads)
    okw = len(writes) == 2 and all(
        key_ok(w, match('cache[$k]', w.targets[0])['k']) for w in writes)
    reqdef = [n for n in walk_local(lookup) if isinstance(n, ast.Assign)
              and match('required = $v', n, 'exec') is not None]
    okt = all(match('tuple(required)', n.value) is not None for n in reqdef)
    rep.check('R08.2', 'LookupBase.lookup', okr and okw and okt,
              'reads %s / writes %s keyed by required[0] iff len(required) == 1 '
              'else the tuple (reads ok %s, writes ok %s)'
              % ([norm_src(c) for c, _ in reads],
                 [norm_src(w.targets[0]) for w in writes], okr, okw),
              construct='keys', node=lookup)
    for f, key in ((lookup1, 'required'), (hook, 'required')):
        probes = find_all(f, 'cache.get($k, $$d)')
        ok = len(probes) == 1 and match(key, probes[0][1]['k']) is not None
        rep.check('R08.2', 'LookupBase.' + f.name, ok,
                  'probes the single-spec slot with the bare specification: %s'
                  % [norm_src(c) for c, _ in probes], construct='probe', node=f)
    # _getcache: name level only for truthy names; both levels keyed exactly
    gc = find_def(mod, 'LookupBase._getcache')
    ok = bool(find_all(gc, 'self._cache.get(provided)')) and \
        bool(find_all(gc, 'self._cache[provided] = $c', 'exec')) and \
        bool(find_all(gc, 'cache.get(name)')) and \
        bool(find_all(gc, 'cache[name] = $c', 'exec'))
    ifs = [n for n in walk_local(gc) if isinstance(n, ast.If)
           and match('name', n.test) is not None]
    rep.check('R08.2', 'LookupBase._getcache', ok and len(ifs) == 1,
              'two-level cache keyed by provided, then (for non-empty names) '
              'by name', construct='levels', node=gc)

    # ---- R08.3 --------------------------------------------------------------
    for f in (lookup, lookup1, hook):
        name_guard(rep, 'R08.3', f, 'LookupBase.' + f.name)

    # ---- R08.4 --------------------------------------------------------------
    shared.check_collect_walker(rep, 'R08.4', find_def(mod, '_lookupAll'), 'update')
    shared.check_registry_walk_collect(
        rep, 'R08.4', find_def(mod, 'AdapterLookupBase._uncached_lookupAll'),
        '_lookupAll', '_adapters')

    # ---- R08.5 result tables --------------------------------------------------
    shared.check_default_tail(rep, 'R08.5', lookup, 'LookupBase.lookup')
    # lookup1: hit None -> default; hit value -> value
    cfg = cfg_of(lookup1)
    rets = [n for n in walk_local(lookup1) if isinstance(n, ast.Return)]
    vals = sorted(norm_src(r.value) for r in rets)
    okl1 = vals == sorted(['self.lookup((required,), provided, name, default)',
                           'default', 'result'])
    for r in rets:
        if isinstance(r.value, ast.Name) and r.value.id == 'default':
            g = r.parent
            okl1 = okl1 and isinstance(g, ast.If) and \
                match('result is None', g.test) is not None and r in g.body
        if isinstance(r.value, ast.Call):
            g = r.parent
            okl1 = okl1 and isinstance(g, ast.If) and \
                match('result is _not_in_mapping', g.test) is not None and r in g.body
    rep.check('R08.5', 'LookupBase.lookup1', okl1,
              'miss -> delegate; cached None -> default; else the cached value '
              '(returns %s)' % vals, construct='table', node=lookup1)
    # adapter_hook
    cfg = cfg_of(hook)
    calls = find_all(hook, 'factory($$a)')
    okh = len(calls) == 1 and match('factory(object)', calls[0][0]) is not None
    unwrap = find_all(hook, 'object = object.__self__', 'exec')
    oku = False
    if unwrap and okh:
        u = unwrap[0][0]
        g = u.parent
        oku = isinstance(g, ast.If) and match('isinstance(object, super)', g.test) \
            is not None and u in g.body
        # unwrap happens after the lookup and before the factory call
        cn = cfg.node_of(calls[0][0])
        un = cfg.node_of(u)
        oku = oku and cn.id in cfg.reach(un) and all(
            un.id in cfg.reach(cfg.node_of(c)) for c, _ in
            find_all(hook, 'providedBy(object)'))
    guard_f = False
    if okh:
        st = shared.stmt_of(calls[0][0])
        p = st.parent
        guard_f = isinstance(p, ast.If) and \
            match('factory is not None', p.test) is not None and st in p.body
    rets = [n for n in walk_local(hook) if isinstance(n, ast.Return)]
    vals = sorted(norm_src(r.value) for r in rets)
    okret = vals == ['default', 'result']
    for r in rets:
        if isinstance(r.value, ast.Name) and r.value.id == 'result':
            g = r.parent
            okret = okret and isinstance(g, ast.If) and \
                match('result is not None', g.test) is not None
    rep.check('R08.5', 'LookupBase.adapter_hook', okh and oku and guard_f and okret,
              'factory(object) only when factory is not None (%s); super '
              'proxy replaced by __self__ after the lookup and before the '
              'call (%s); non-None result returned else default (%s)'
              % (guard_f, oku, okret), construct='table', node=hook)
    # queryMultiAdapter
    calls = find_all(qma, 'factory($$a)')
    okc = len(calls) == 1 and (
        match('factory(*[$o.__self__ if isinstance($o, super) else $o for $o in objects])',
              calls[0][0]) is not None)
    rets = [n for n in walk_local(qma) if isinstance(n, ast.Return)]
    vals = sorted(norm_src(r.value) for r in rets)
    okr = vals == ['default', 'default', 'result']
    guards = sorted(norm_src(r.parent.test) for r in rets
                    if isinstance(r.parent, ast.If))
    okr = okr and guards == ['factory is None', 'result is None']
    rep.check('R08.5', 'AdapterLookupBase.queryMultiAdapter', okc and okr,
              'factory called with the objects in order, super proxies '
              'unwrapped (%s); None factory/result -> default (%s)' % (okc, okr),
              construct='table', node=qma)
    # subscribers
    ifs = [n for n in subs.body if isinstance(n, ast.If)
           and match('provided is None', n.test) is not None]
    oks = len(ifs) == 1
    if oks:
        i = ifs[0]
        hl = [n for n in i.body if isinstance(n, ast.For)]
        al = [n for n in i.orelse if isinstance(n, ast.For)]
        oks = len(hl) == 1 and len(al) == 1
        if oks:
            for lp in (hl[0], al[0]):
                src, d = iter_polarity(lp.iter)
                oks = oks and d == 'fwd' and isinstance(src, ast.Name) \
                    and src.id == 'subscriptions'
                v = lp.target.id
                oks = oks and len(find_all(lp, '%s(*objects)' % v)) == 1
                oks = oks and not [n for n in walk_local(lp) if isinstance(
                    n, (ast.Break, ast.Return, ast.Continue))]
            # adapters: append iff not None
            ap = find_all(al[0], 'result.append($s)')
            oks = oks and len(ap) == 1
            if oks:
                g = shared.stmt_of(ap[0][0]).parent
                oks = isinstance(g, ast.If) and match(
                    '%s is not None' % norm_src(ap[0][1]['s']), g.test) is not None
            oks = oks and any(match('result = ()', s, 'exec') is not None
                              for s in i.body)
            oks = oks and any(match('result = []', s, 'exec') is not None
                              for s in i.orelse)
    rep.check('R08.5', 'AdapterLookupBase.subscribers', oks,
              'provided None: every subscription called with *objects, returns (); '
              'else non-None results kept in subscription order',
              construct='table', node=subs)

    # ---- R08.6 ----------------------------------------------------------------
    cls = find_def(mod, 'BaseAdapterRegistry')
    d = class_attr_assign(cls, '_delegated')
    got = set()
    if isinstance(d, (ast.Tuple, ast.List)):
        got = {e.value for e in d.elts if isinstance(e, ast.Constant)}
    need = {'lookup', 'queryMultiAdapter', 'lookup1', 'queryAdapter',
            'adapter_hook', 'lookupAll', 'names', 'subscriptions', 'subscribers'}
    rep.check('R08.6', 'BaseAdapterRegistry._delegated', need <= got,
              'delegated entry points %s (missing %s)' % (sorted(got),
                                                          sorted(need - got)),
              node=cls)
    from .C05 import inv5
    from . import cside
    inv5(rep, mod, None, rule='R08.7')
    cside.verify_first(rep, cside.cu(rep), rule='R08.7')
    cside.c08(rep)
