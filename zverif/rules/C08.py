"""C08 - all lookup entry points agree with lookup() and subscriptions()."""
import ast

from ..core import AnalysisError, norm_src
from ..pyfront import (find_def, find_all, match, walk_local, dotted, same,
                       calls_in, names_in, ClassTable, class_attr_assign)
from ..flowq import (iter_polarity, resolve_local, loops_over, pred_of,
                     witness_path, nodes_with, reaching_defs, def_value,
                     any_pred)
from ..cfg import cfg_of, header_expr
from . import shared


def sig(func):
    a = func.args
    names = [x.arg for x in a.args]
    nd = len(a.defaults)
    defaults = [None] * (len(names) - nd) + [norm_src(d) for d in a.defaults]
    return list(zip(names, defaults))


def name_guard(rep, rule, func, site):
    """the isinstance(name, str) test (any spelling) sends non-str names to
    `raise ValueError` and guards every cache access / lookup."""
    from ..facts import test_nodes, guarded
    cfg = cfg_of(func)
    tn = test_nodes(cfg, 'isinstance(name, str)')
    ok = False
    detail = 'no isinstance(name, str) test'
    if tn:
        okraise = True
        for n, pol in tn:
            lab = 'F' if pol else 'T'          # edge on which name is not a str
            nxt = [m for m, l in n.succ if l == lab]
            for m in nxt:
                r = cfg.reach(m, include_start=True)
                raises = [x for x in cfg.nodes if x.id in r and isinstance(x.ast, ast.Raise)
                          and x.ast.exc is not None and
                          match('ValueError($$a)', x.ast.exc) is not None]
                if cfg.exit.id in r or not raises:
                    okraise = False
        access = [n for n in cfg.nodes if n.ast is not None and header_expr(n) is not None
                  and n.kind != 'test' or (n.kind == 'test' and n.ast is not None and
                                           not any(n is t for t, _ in tn))]
        access = [n for n in access if header_expr(n) is not None and (
            find_all(header_expr(n), 'self._getcache($$a)') or
            find_all(header_expr(n), 'self._cache') or
            find_all(header_expr(n), 'self.lookup($$a)') or
            find_all(header_expr(n), 'providedBy($$a)'))]
        dom = bool(access) and all(
            guarded(cfg, n, 'isinstance(name, str)', True) for n in access)
        ok = okraise and dom
        detail = ('non-str names always end in raise ValueError (%s); every cache '
                  'access/lookup (%d sites) is reached only with a str name (%s)'
                  % (okraise, len(access), dom))
    rep.check(rule, site, ok, detail, construct='name-guard', node=func)


def run(rep):
    repo = rep.repo
    mod = repo.module('adapter.py')
    rep.rule('R08.1', 'delegation and argument permutation of every entry '
             'point (lookup1 -> lookup((required,), ...); queryAdapter -> '
             'adapter_hook(provided, object, ...); adapter_hook looks up '
             '(providedBy(object),); queryMultiAdapter / subscribers map '
             'providedBy over the objects in order; names = first components '
             'of lookupAll)', floor=9)
    rep.rule('R08.2', 'cache-key agreement: lookup stores and reads under '
             'required[0] iff len(required) == 1, else under the tuple; '
             'lookup1 and adapter_hook probe the same _getcache(provided, '
             'name) container with the bare specification; caches are filled '
             'only with the value of the matching uncached call', floor=4)
    rep.rule('R08.3', 'the name guard (ValueError for non-str names) '
             'dominates every cache access in lookup, lookup1, adapter_hook',
             floor=3)
    rep.rule('R08.4', '_lookupAll polarity: most specific registration wins '
             'per name (same winner as lookup); _uncached_lookupAll: nearest '
             'registry wins', floor=10)
    rep.rule('R08.5', 'C twin result handling: None -> default after the cache '
             'store; factory called with super proxies unwrapped', floor=3)
    rep.rule('R08.6', 'all nine entry points are delegated from the registry '
             'to its lookup object', floor=1)
    rep.rule('R08.7', 'verifying registries: every entry point (Python '
             'overrides and every VB_* C entry) runs the generation check '
             'before its worker, so all entry points see the same cache state',
             floor=8)
    rep.rule('R08.8', 'the single-adapter entry points stay equal to lookup() after '
             'declaration changes: _uncached_lookup subscribes to the complete required '
             'tuple on every exit, hit or miss, and _subscribe subscribes to EVERY '
             'required specification not yet recorded (lookupAll()/names() recompute '
             'from their own cache; shared with C04 R04.7 / C05 INV-4)', floor=2)
    rep.rule('R08.10', 'every entry point answers from the same, current state: the '
             'first-hit walker of lookup() and the collecting walkers of lookupAll()/'
             'subscriptions() read the same linearization (__sro__) of each required '
             'specification, and _createLookup re-binds every delegated entry point to '
             'the NEW lookup object (an entry point left on the old one answers from '
             'caches changed() no longer reaches; C04 R04.1, C09 R09.9)', floor=8)
    rep.rule('R08.9', 'one calling convention per entry point: every C entry '
             '(LookupBase and VerifyingBase tables) takes the parameters of its '
             'Python twin - names, order, optional ones - so a call spelled with '
             'keywords reaches the same lookup on every implementation (shared '
             'with C10 F1)', floor=8)
    rep.decline('none - relative to C04/C05/C07')

    lookup = find_def(mod, 'LookupBase.lookup')
    lookup1 = find_def(mod, 'LookupBase.lookup1')
    qa = find_def(mod, 'LookupBase.queryAdapter')
    hook = find_def(mod, 'LookupBase.adapter_hook')
    qma = find_def(mod, 'AdapterLookupBase.queryMultiAdapter')
    names = find_def(mod, 'AdapterLookupBase.names')
    subs = find_def(mod, 'AdapterLookupBase.subscribers')

    # ---- signatures (positional protocol used by the delegations) ---------
    want = {
        'lookup': [('self', None), ('required', None), ('provided', None),
                   ('name', "''"), ('default', 'None')],
        'lookup1': [('self', None), ('required', None), ('provided', None),
                    ('name', "''"), ('default', 'None')],
        'queryAdapter': [('self', None), ('object', None), ('provided', None),
                         ('name', "''"), ('default', 'None')],
        'adapter_hook': [('self', None), ('provided', None), ('object', None),
                         ('name', "''"), ('default', 'None')],
    }
    for f in (lookup, lookup1, qa, hook):
        rep.check('R08.1', 'LookupBase.' + f.name, sig(f) == want[f.name],
                  'signature %s' % sig(f), construct='signature', node=f)

    # ---- R08.1 / R08.2 / R08.5 (semantic, over path summaries) -----------------
    from . import sem
    rets = [n for n in walk_local(qa) if isinstance(n, ast.Return)]
    ok = len(rets) == 1 and match(
        'self.adapter_hook(provided, object, name, default)', rets[0].value) is not None
    rep.check('R08.1', 'LookupBase.queryAdapter', ok,
              'returns self.adapter_hook(provided, object, name, default): %s'
              % [norm_src(r.value) for r in rets], construct='delegate', node=qa)
    sem.lookup1_spec(rep, 'R08.1', lookup1, 'LookupBase.lookup1')
    sem.adapter_hook_spec(rep, 'R08.1', hook, 'LookupBase.adapter_hook')
    sem.query_multi_spec(rep, 'R08.1', qma, 'AdapterLookupBase.queryMultiAdapter')
    sem.names_spec(rep, 'R08.1', names, 'AdapterLookupBase.names')
    sem.subscribers_spec(rep, 'R08.1', subs, 'AdapterLookupBase.subscribers')
    for fn_ in ('lookup', 'lookup1', 'adapter_hook', 'lookupAll', 'subscriptions'):
        sem.fetch_order_spec(rep, 'R08.2', find_def(mod, 'LookupBase.' + fn_),
                             'LookupBase.' + fn_)
    sem.cached_lookup_spec(rep, 'R08.2', lookup, 'LookupBase.lookup', '_uncached_lookup',
                           '_getcache', 'single-or-tuple', True,
                           ['required', 'provided', 'name'])
    sem.cached_lookup_spec(rep, 'R08.2', find_def(mod, 'LookupBase.lookupAll'),
                           'LookupBase.lookupAll', '_uncached_lookupAll', '_mcache',
                           'tuple', False, ['required', 'provided'])
    sem.cached_lookup_spec(rep, 'R08.2', find_def(mod, 'LookupBase.subscriptions'),
                           'LookupBase.subscriptions', '_uncached_subscriptions',
                           '_scache', 'tuple', False, ['required', 'provided'])
    # _getcache: two levels, the name level only for non-empty names
    gc = find_def(mod, 'LookupBase._getcache')
    gs = sem.normal(sem.summaries(gc))
    probs = []
    for ps in gs:
        nm = ps.fact('name')
        ret = sem.nt(ps.ret)
        lvl1 = ('self._cache.get(provided)', '{}')
        if nm is None:
            probs.append('no test of the name on a path')
        elif not nm and ret not in lvl1:
            probs.append('empty name returns `%s`' % ret[:50])
        elif nm and not (ret == '{}' or ret.endswith('.get(name)')):
            probs.append('named lookup returns `%s`' % ret[:50])
    rep.check('R08.2', 'LookupBase._getcache', not probs and len(gs) >= 4,
              'two-level cache keyed by provided, then (for non-empty names) by name'
              if not probs else {'problems': sorted(set(probs))}, construct='levels',
              node=gc)

    # ---- R08.3 --------------------------------------------------------------
    for f in (lookup, lookup1, hook):
        name_guard(rep, 'R08.3', f, 'LookupBase.' + f.name)

    # ---- R08.4 --------------------------------------------------------------
    sem.check_walkers(rep, 'R08.4', find_def(mod, '_lookupAll'), 'update')
    sem.registry_walk_spec(
        rep, 'R08.4', find_def(mod, 'AdapterLookupBase._uncached_lookupAll'),
        '_lookupAll', '_adapters', 'rev', False, ['{}', '0', 'len(required)'],
        'tuple({}.items())')

    # ---- R08.6 ----------------------------------------------------------------
    cls = find_def(mod, 'BaseAdapterRegistry')
    d = class_attr_assign(cls, '_delegated')
    got = set()
    if isinstance(d, (ast.Tuple, ast.List)):
        got = {e.value for e in d.elts if isinstance(e, ast.Constant)}
    need = {'lookup', 'queryMultiAdapter', 'lookup1', 'queryAdapter',
            'adapter_hook', 'lookupAll', 'names', 'subscriptions', 'subscribers'}
    rep.check('R08.6', 'BaseAdapterRegistry._delegated', need <= got,
              'delegated entry points %s (missing %s)' % (sorted(got),
                                                          sorted(need - got)),
              node=cls)
    from .C05 import inv5
    from . import cside
    inv5(rep, mod, None, rule='R08.7')
    cside.verify_first(rep, cside.cu(rep), rule='R08.7')
    cside.c08(rep)
    from .C05 import subscribe_on_all_exits, subscribe_all_spec
    subscribe_on_all_exits(rep, mod, 'R08.8', only=('_uncached_lookup',))
    subscribe_all_spec(rep, mod, 'R08.8')
    from .C10 import lookup_signatures
    lookup_signatures(rep, cside.cu(rep), mod, 'R08.9')
    # ---- R08.10 ------------------------------------------------------------
    sem.check_walkers(rep, 'R08.10', find_def(mod, '_lookup'), 'first')
    from .C05 import delegation_spec
    delegation_spec(rep, mod, 'R08.10')
