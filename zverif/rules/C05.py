"""C05 - lookup caches are transparent.

Builds the invalidation graph: every mutation kind of the statement must
reach every cache clear (INV-1 .. INV-6).  Python side here; the C twins of
the terminal handlers are checked through ``cside`` when clang is available.
"""
import ast

from ..core import AnalysisError, norm_src
from ..pyfront import (find_def, find_all, match, walk_local, dotted, same,
                       calls_in, names_in, methods_of, ClassTable, FUNC)
from ..flowq import (iter_polarity, resolve_local, loops_over, pred_of,
                     witness_path, nodes_with, reaching_defs, def_value,
                     any_pred)
from ..cfg import cfg_of, header_expr
from . import shared

S1 = ('_adapters', '_subscribers', '_provided')
CACHES = ('_cache', '_mcache', '_scache')


def changed_pred():
    return any_pred(pred_of('self.changed($$a)'),
                    pred_of('self.__bases__ = $v', 'exec'),
                    pred_of('self._setBases($$a)'))


def must_on_all_paths(cfg, pred, start=None):
    start = start or cfg.entry
    return cfg.must_pass_after(start, pred)


def inv1(rep, mod, table, rule='INV-1', only=None, floor=4):
    """Mutators of the registration storage notify."""
    sites = 0
    for cname in ['BaseAdapterRegistry'] + [
            c for c in table.subclasses('BaseAdapterRegistry')
            if c != 'BaseAdapterRegistry']:
        cls = table.node(cname)
        if cls is None:
            continue
        from ..inline import known_names
        known = known_names(getattr(mod, 'relpath', 'adapter.py'))
        for name, f in methods_of(cls).items():
            if only is not None and name not in only:
                continue
            if name.startswith('_') and not name.startswith('__') and name not in known:
                continue      # a new private helper: its body is seen inlined in its callers
            writes, D = shared.content_writes(f, S1)
            real = []
            for w, kind, cont, val in writes:
                st = shared.stmt_of(w)
                if kind in ('setitem', 'append') and \
                        shared.is_fresh_container(f, val, st):
                    continue        # neutral: empty container
                real.append((w, kind, cont, val))
            if not real:
                continue
            sites += 1
            cfg = cfg_of(f)
            chg = changed_pred()
            site = '%s.%s' % (cname, name)
            for w, kind, cont, val in real:
                n = cfg.node_of(w)
                ok = cfg.must_pass_after(n, chg)
                # a write in the same node as the notification counts when it
                # precedes it; here notifications are separate statements
                detail = 'content write `%s` is followed by self.changed() on every normal path' \
                    % norm_src(shared.stmt_of(w)).split('\n')[0][:80]
                if not ok:
                    detail = {'write': norm_src(shared.stmt_of(w)).split('\n')[0],
                              'path_without_changed': witness_path(cfg, n, chg)}
                rep.check(rule, site, ok, detail,
                          construct='%s:%s' % (kind, norm_src(cont)), node=w)
    rep.require(sites >= floor, '%s: only %d mutator methods with content '
                'writes found (floor %d)' % (rule, sites, floor))


def all_paths_call(rep, rule, func, site, pattern, what, construct=''):
    from .sem import paths_have
    ok, wit = paths_have(func, [pattern])
    detail = '%s on every normal path' % what
    if not ok:
        detail = wit if isinstance(wit, dict) else {'missing': what, 'why': wit}
    rep.check(rule, site, ok, detail, construct=construct or what, node=func)
    return ok


def all_paths_event(rep, rule, func, site, alternatives, text, construct):
    from .sem import paths_have
    ok, wit = paths_have(func, alternatives)
    rep.check(rule, site, ok, text if ok else (wit if isinstance(wit, dict) else
                                                {'missing': alternatives[0], 'why': wit}),
              construct=construct, node=func)
    return ok


def loop_calls_all(rep, rule, func, site, source_patterns, call_pattern, what):
    """A loop over one of source_patterns whose body calls call_pattern on
    the loop variable, without early exit or condition skipping the call."""
    found = None
    for sp in source_patterns:
        for lp, d, env in loops_over(func, sp):
            if isinstance(lp, ast.For):
                found = lp
    if found is None:
        rep.check(rule, site, False, 'no loop over %s' % (source_patterns,),
                  construct=what, node=func)
        return
    lp = found
    var = lp.target.id if isinstance(lp.target, ast.Name) else None
    calls = find_all(lp, call_pattern.replace('VAR', var or '_'))
    exits = [n for n in walk_local(lp)
             if isinstance(n, (ast.Break, ast.Return, ast.Continue))]
    unconditional = any(c.parent.parent is lp for c, _ in calls
                        if isinstance(c.parent, ast.Expr))
    rep.check(rule, site, bool(calls) and not exits and unconditional,
              '%s: calls=%s early-exits=%s unconditional=%s'
              % (what, [norm_src(c) for c, _ in calls],
                 [norm_src(e) for e in exits], unconditional),
              construct=what, node=lp)


def delegation_spec(rep, mod, rule):
    """_createLookup, over its path summaries: a NEW lookup object is created
    from LookupClass and stored as self._v_lookup, and afterwards every
    delegated entry point is (re)bound - stored unconditionally in the instance
    dict - to the method of THAT object.  (rebuild() re-runs this: an entry
    point left bound to the previous lookup object answers from caches that
    changed() no longer reaches.)"""
    from ..sympath import summaries as _S, normal as _N
    from .sem import nt as _nt
    cl = find_def(mod, 'BaseAdapterRegistry._createLookup')
    p_new, p_del = [], []
    n_loop = 0
    E = 'EACH(self._delegated)'
    for ps in _N(_S(cl)):
        st = [(k, e) for k, e in enumerate(ps.events) if e.kind == 'store'
              and _nt(e.r) == 'self._v_lookup']
        if len(st) != 1 or _nt(st[0][1].val) != 'self.LookupClass(self)':
            p_new.append('self._v_lookup = %s' % [_nt(e.val)[:40] for k, e in st])
            continue
        k0 = st[0][0]
        if not ps.facts.get('ITER(self._delegated)'):
            continue
        n_loop += 1
        conds = [c for c, t, p in ps.order if not c.startswith('ITER(') and p > k0]
        if conds:
            p_del.append('the binding of an entry point depends on `%s`' % conds[0][:50])
        bind = [(k, e) for k, e in enumerate(ps.events) if e.kind == 'store' and
                _nt(e.r) in ('self.__dict__[%s]' % E, 'vars(self)[%s]' % E)]
        viaset = [k for k, e in enumerate(ps.events) if e.kind == 'call' and
                  _nt(e.r) == 'setattr(self, %s, getattr(self._v_lookup, %s))' % (E, E)]
        if not bind and len(viaset) == 1 and viaset[0] > k0:
            continue          # setattr on the instance is the same dict store
        if len(bind) != 1 or bind[0][0] < k0 or \
                _nt(bind[0][1].val) != 'getattr(self._v_lookup, %s)' % E:
            other = [_nt(e.r)[:70] for e in ps.events if e.kind == 'call'
                     and isinstance(e.r, ast.Call) and E in _nt(e.r)
                     and not _nt(e.r).startswith('getattr(')]
            p_del.append('each delegated name is not stored as '
                         'self.__dict__[name] = getattr(self._v_lookup, name) after the '
                         'new lookup object exists (stores %s, calls %s)'
                         % ([_nt(e.val)[:40] for k, e in bind], other[:2]))
    if not n_loop:
        p_del.append('no path walks self._delegated')
    rep.check(rule, 'BaseAdapterRegistry._createLookup', not p_new,
              'the lookup object notified by changed() is the one created from '
              'LookupClass and the one whose methods are delegated'
              if not p_new else {'problems': sorted(set(p_new))[:2]},
              construct='create', node=cl)
    rep.check(rule, 'BaseAdapterRegistry._createLookup', not p_del,
              'delegated entry points are (re)bound to the methods of the new '
              'self._v_lookup' if not p_del else {'problems': sorted(set(p_del))[:2]},
              construct='delegate', node=cl)


def inv2(rep, mod, table):
    # BaseAdapterRegistry.changed
    f = find_def(mod, 'BaseAdapterRegistry.changed')
    all_paths_event(rep, 'INV-2', f, 'BaseAdapterRegistry.changed',
                    ['self._generation += $n', 'self._generation = self._generation + $n'],
                    'generation counter is bumped on every path', 'generation')
    all_paths_call(rep, 'INV-2', f, 'BaseAdapterRegistry.changed',
                   'self._v_lookup.changed($$a)',
                   'self._v_lookup.changed(...)')
    # AdapterRegistry.changed
    f = find_def(mod, 'AdapterRegistry.changed')
    all_paths_call(rep, 'INV-2', f, 'AdapterRegistry.changed',
                   'super().changed($$a)', 'super().changed(...)')
    loop_calls_all(rep, 'INV-2', f, 'AdapterRegistry.changed',
                   ['self._v_subregistries.keys()', 'self._v_subregistries'],
                   'VAR.changed($$a)', 'notify every sub-registry')
    # AdapterLookupBase.changed -> super
    f = find_def(mod, 'AdapterLookupBase.changed')
    all_paths_call(rep, 'INV-2', f, 'AdapterLookupBase.changed',
                   'super().changed($$a)', 'super().changed(...)')
    # MRO resolution of that super() call for the two concrete lookups
    for concrete, want in (('AdapterLookup', 'LookupBase'),
                           ('VerifyingAdapterLookup', 'VerifyingBase')):
        rep.require(table.node(concrete) is not None,
                    'class %s vanished' % concrete)
        r = table.lookup_method(concrete, 'changed', after='AdapterLookupBase')
        first = table.lookup_method(concrete, 'changed')
        rep.check('INV-2', concrete,
                  r is not None and r[0] == want and first is not None
                  and first[0] == 'AdapterLookupBase',
                  'MRO %s: changed() resolves to %s then super() to %s (required '
                  'AdapterLookupBase then %s)'
                  % (table.mro(concrete), first and first[0], r and r[0], want),
                  construct='mro', node=table.node(concrete))
    # registries pick those lookup classes
    for reg, lk in (('AdapterRegistry', 'AdapterLookup'),
                    ('VerifyingAdapterRegistry', 'VerifyingAdapterLookup')):
        cls = table.node(reg)
        from ..pyfront import class_attr_assign
        v = class_attr_assign(cls, 'LookupClass')
        rep.check('INV-2', reg, v is not None and dotted(v) == lk,
                  'LookupClass = %s (required %s)' % (norm_src(v), lk),
                  construct='LookupClass', node=cls)
    delegation_spec(rep, mod, 'INV-2')
    # terminal: LookupBase.changed clears every cache field
    init = find_def(mod, 'LookupBase.__init__')
    fields = set()
    for n in walk_local(init):
        if isinstance(n, ast.Assign):
            for t in n.targets:
                if isinstance(t, ast.Attribute) and isinstance(t.value, ast.Name) \
                        and t.value.id == 'self':
                    fields.add(t.attr)
    rep.require(set(CACHES) <= fields,
                'LookupBase.__init__ no longer creates %s (has %s)'
                % (CACHES, sorted(fields)))
    ch = find_def(mod, 'LookupBase.changed')
    for fld in sorted(fields):
        all_paths_event(rep, 'INV-2', ch, 'LookupBase.changed',
                        ['self.%s.clear()' % fld, 'self.%s = {}' % fld,
                         'self.%s = dict()' % fld],
                        'cache field %s is emptied on every path' % fld, 'clear:' + fld)
    # VerifyingBase.changed delegates to the base clear and re-snapshots
    vch = find_def(mod, 'VerifyingBase.changed')
    all_paths_call(rep, 'INV-2', vch, 'VerifyingBase.changed',
                   'LookupBaseFallback.changed(self, $$a)',
                   'LookupBaseFallback.changed(self, ...)')


def inv3(rep, mod, table, rule='INV-3'):
    f = find_def(mod, 'BaseAdapterRegistry._setBases')
    from .sem import paths_order
    ST = ["self.__dict__['__bases__'] = bases"]
    RO = ['self.ro = ro.ro(self)']
    CH = ['self.changed($$a)']
    site = 'BaseAdapterRegistry._setBases'
    all_paths_event(rep, rule, f, site, ST, 'stores the new bases on every path',
                    'store')
    all_paths_event(rep, rule, f, site, RO,
                    'recomputes self.ro = ro.ro(self) on every path', 'ro')
    all_paths_event(rep, rule, f, site, CH, 'calls self.changed() on every path',
                    'changed')
    # order: store < ro < changed
    okorder = paths_order(f, ST, RO) and paths_order(f, RO, CH)
    rep.check(rule, site, okorder,
              'order: bases stored, then ro recomputed from them, then changed()',
              construct='order', node=f)
    # the property setter resolves to _setBases
    cls = find_def(mod, 'BaseAdapterRegistry')
    shared.setter_routes(rep, rule, cls, '__bases__', 'BaseAdapterRegistry.__bases__')
    f = find_def(mod, 'AdapterRegistry._setBases')
    all_paths_call(rep, rule, f, 'AdapterRegistry._setBases',
                   'super()._setBases(bases)', 'super()._setBases(bases)')
    # constructor initialises through the property
    init = find_def(mod, 'BaseAdapterRegistry.__init__')
    all_paths_event(rep, rule, init, 'BaseAdapterRegistry.__init__',
                    ['self.__bases__ = bases'],
                    'constructor assigns __bases__ through the property (initial '
                    'ro + changed)', 'init')
    ok = paths_order(init, ['self._createLookup()'], ['self.__bases__ = bases'])
    rep.check(rule, 'BaseAdapterRegistry.__init__', ok,
              '_createLookup() precedes the first changed()', construct='lookup-first',
              node=init)


def subscribe_on_all_exits(rep, mod, rule, only=None):
    pairs = (('_uncached_lookup', 'lookup', '_cache'),
             ('_uncached_lookupAll', 'lookupAll', '_mcache'),
             ('_uncached_subscriptions', 'subscriptions', '_scache'))
    for unc, _, _ in pairs:
        if only is not None and unc not in only:
            continue
        f = find_def(mod, 'AdapterLookupBase.' + unc)
        from .sem import paths_have
        # resolved: the argument is the method's own `required` (as a tuple)
        ok, wit = paths_have(f, ['self._subscribe(*required)',
                                 'self._subscribe(*tuple(required))'])
        okreq = True
        detail = 'self._subscribe(*required) on every normal exit (hit and miss)'
        if not ok:
            detail = wit if isinstance(wit, dict) else {'missing':
                                                        'self._subscribe(*required)'}
        rep.check(rule, 'AdapterLookupBase.' + unc, ok and okreq, detail,
                  construct='subscribe', node=f)


def subscribe_all_spec(rep, mod, rule='INV-4'):
    """AdapterLookupBase._subscribe subscribes to EVERY required specification
    not yet recorded (shared: C05 INV-4, C07 R07.9, C08 R08.8)"""
    # _subscribe
    f = find_def(mod, 'AdapterLookupBase._subscribe')
    va = f.args.vararg.arg if f.args.vararg else None
    rep.require(va is not None, '_subscribe has no *required')
    from .specsem import iterated, fact_cmp, each_conditions
    from .sem import nt
    from ..sympath import summaries, normal
    E = 'EACH(%s)' % va
    R = '%s.weakref()' % E
    probs = []
    kinds = set()
    for ps in normal(summaries(f)):
        its = iterated(ps)
        if any(i != va for i in its):
            probs.append('iterates %s' % its)
            continue
        if not its:
            continue
        subs = [e for e in ps.events if e.kind == 'call' and
                nt(e.r) == '%s.subscribe(self)' % E]
        recs = [e for e in ps.events if e.kind == 'store' and
                isinstance(e.r, ast.Subscript) and nt(e.r.value) == 'self._required'
                and nt(e.r.slice) == R]
        known = fact_cmp(ps, R, 'self._required', 'in')
        if known is None:
            kinds.add('always')
            if len(subs) != 1:
                probs.append('a required spec is not subscribed to')
        elif known:
            kinds.add('known')
            if subs or recs:
                probs.append('subscribes again to a recorded spec')
        else:
            kinds.add('new')
            if len(subs) != 1 or len(recs) != 1:
                probs.append('a spec not yet recorded is not subscribed to and '
                             'recorded (subscribe %d, record %d)' % (len(subs), len(recs)))
        extra = [c for c in each_conditions(ps, va)
                 if c not in ('%s in self._required' % R,)]
        if extra:
            probs.append('also depends on `%s`' % extra[0][:60])
    for lp in walk_local(f):
        if isinstance(lp, ast.For) and \
                [n for n in walk_local(lp) if isinstance(n, (ast.Break, ast.Return))]:
            probs.append('the walk over the required specs can end early')
    ok = not probs and (kinds == {'known', 'new'} or kinds == {'always'})
    detail = ('subscribes to every required spec not yet recorded in '
              'self._required and records it') if ok else \
        {'problems': sorted(set(probs)) or ['path kinds %s' % sorted(kinds)]}
    rep.check(rule, 'AdapterLookupBase._subscribe', ok, detail,
              construct='subscribe-all', node=f)


def inv4(rep, mod, table):
    pairs = (('_uncached_lookup', 'lookup', '_cache'),
             ('_uncached_lookupAll', 'lookupAll', '_mcache'),
             ('_uncached_subscriptions', 'subscriptions', '_scache'))
    from . import sem as _sem
    for fn_ in ('lookup', 'lookup1', 'adapter_hook', 'lookupAll', 'subscriptions'):
        _sem.fetch_order_spec(rep, 'INV-4', find_def(mod, 'LookupBase.' + fn_),
                              'LookupBase.' + fn_)
    subscribe_on_all_exits(rep, mod, 'INV-4')
    subscribe_all_spec(rep, mod, 'INV-4')
    from . import sem as _sem
    _sem.lookup1_spec(rep, 'INV-4', find_def(mod, 'LookupBase.lookup1'), 'LookupBase.lookup1')
    # changed(): unsubscribe + clear
    f = find_def(mod, 'AdapterLookupBase.changed')
    all_paths_event(rep, 'INV-4', f, 'AdapterLookupBase.changed',
                    ['self._required.clear()', 'self._required = {}'],
                    'the subscription record is cleared together with the caches '
                    '(so the next uncached lookup subscribes again)', 'required.clear')
    # cache fills only behind the matching uncached call (path summaries)
    _sem.cached_lookup_spec(rep, 'INV-4', find_def(mod, 'LookupBase.lookup'),
                            'LookupBase.lookup', '_uncached_lookup',
                            '_getcache', 'single-or-tuple', True,
                            ['required', 'provided', 'name'])
    _sem.cached_lookup_spec(rep, 'INV-4', find_def(mod, 'LookupBase.lookupAll'),
                            'LookupBase.lookupAll', '_uncached_lookupAll',
                            '_mcache', 'tuple', False,
                            ['required', 'provided'])
    _sem.cached_lookup_spec(rep, 'INV-4', find_def(mod, 'LookupBase.subscriptions'),
                            'LookupBase.subscriptions', '_uncached_subscriptions',
                            '_scache', 'tuple', False,
                            ['required', 'provided'])
    # other LookupBase methods never fill a cache with a value
    cls = find_def(mod, 'LookupBase')
    for name, f in methods_of(cls).items():
        if name in ('lookup', 'lookupAll', 'subscriptions', '__init__'):
            continue
        writes, D = shared.content_writes(f, CACHES)
        for n in walk_local(f):
            if isinstance(n, ast.Assign) and match('self._getcache($$a)', n.value) is not None:
                for t in n.targets:
                    if isinstance(t, ast.Name):
                        D.add(t.id)
        bad = []
        for n in walk_local(f):
            if isinstance(n, ast.Assign):
                for t in n.targets:
                    if isinstance(t, ast.Subscript) and isinstance(t.value, ast.Name) \
                            and t.value.id in D and \
                            not shared.is_fresh_container(f, n.value, n, factories=()):
                        bad.append(norm_src(n))
                    if isinstance(t, ast.Subscript) and match('self.$c', t.value) is not None \
                            and t.value.attr in CACHES and \
                            not shared.is_fresh_container(f, n.value, n, factories=()):
                        bad.append(norm_src(n))
        rep.check('INV-4', 'LookupBase.' + name, not bad,
                  'no answer is stored into a cache outside lookup/lookupAll/'
                  'subscriptions (found %s)' % bad, construct='who-may-write',
                  node=f)


def inv5(rep, mod, table, rule='INV-5'):
    lb = find_def(mod, 'LookupBase')
    vb = find_def(mod, 'VerifyingBase')
    vms = methods_of(vb)
    direct = []
    for name, f in methods_of(lb).items():
        if name in ('__init__', 'changed'):
            continue
        reads = [n for n in walk_local(f) if isinstance(n, ast.Attribute)
                 and isinstance(n.value, ast.Name) and n.value.id == 'self'
                 and n.attr in CACHES]
        if reads:
            direct.append(name)
    rep.require(len(direct) >= 3, 'INV-5: direct cache readers %s' % direct)
    for name in direct:
        site = 'VerifyingBase.' + name
        f = vms.get(name)
        if f is None:
            rep.check(rule, site, False,
                      'LookupBase.%s reads a cache field directly but '
                      'VerifyingBase does not override it with a _verify() '
                      'check' % name, construct='override', node=vb)
            continue
        from ..sympath import summaries as _S, normal as _N
        from .sem import nt as _nt
        ps_ = shared.params(f)[1:]
        wants = ['%s.%s(self, %s)' % (b, name, ', '.join(ps_))
                 for b in ('LookupBaseFallback', 'LookupBase')] + \
            ['super().%s(%s)' % (name, ', '.join(ps_)),
             'super(VerifyingBase, self).%s(%s)' % (name, ', '.join(ps_))]
        probs = []
        ss_ = _N(_S(f))
        for ps in ss_:
            calls_ = [(i, _nt(e.r)) for i, e in enumerate(ps.events) if e.kind == 'call']
            ver = [i for i, t in calls_ if t == 'self._verify()']
            dele = [(i, t) for i, t in calls_ if ('.%s(' % name) in t and t != 'self._verify()']
            if len(dele) != 1 or dele[0][1] not in wants:
                probs.append('delegates as %s (required %s, parameters unchanged)'
                             % ([t[:70] for i, t in dele], wants[0]))
                continue
            if not ver or ver[0] > dele[0][0]:
                probs.append('the inherited %s runs without a preceding self._verify()' % name)
            if _nt(ps.ret) != dele[0][1]:
                probs.append('returns `%s` instead of the inherited result' % _nt(ps.ret)[:60])
        if not ss_:
            probs.append('no normal path')
        rep.check(rule, site, not probs,
                  '_verify() runs before the delegation to the inherited %s, whose '
                  'result is returned, with the parameters unchanged' % name
                  if not probs else {'problems': sorted(set(probs))[:3]},
                  construct='verify-first', node=f)
    # indirect readers go through self._getcache (dynamic dispatch)
    for name, f in methods_of(lb).items():
        if name in ('__init__', 'changed') or name in direct:
            continue
        if name in vms:
            continue
        bad = find_all(f, 'LookupBase._getcache($$a)') + \
            find_all(f, 'LookupBaseFallback._getcache($$a)')
        rep.check(rule, 'LookupBase.' + name, not bad,
                  'reaches the cache only through self._getcache / self.lookup '
                  '(dynamic dispatch, so the verifying override applies)',
                  construct='indirect', node=f)
    from . import specsem
    specsem.verifying_py(rep, mod, rule)


def inv6(rep):
    from ..sympath import summaries, normal
    from .sem import nt
    repo = rep.repo
    dmod = repo.module('declarations.py')
    f = find_def(dmod, 'directlyProvides')
    obj = shared.params(f)[0]
    ss = normal(summaries(f))
    vals, bad, missing = [], [], 0
    inplace = []
    for ps in ss:
        st = [e for e in ps.stores() if nt(e.r) == '%s.__provides__' % obj]
        if not st:
            missing += 1
        for e in st:
            v = e.val
            vals.append(nt(v)[:60])
            if not (isinstance(v, ast.Call) and dotted(v.func) in
                    ('Provides', 'ClassProvides')):
                bad.append(nt(v)[:60])
        for e in ps.stores():
            if isinstance(e.r, ast.Attribute) and e.r.attr in (
                    '__bases__', '_bases', 'declared'):
                inplace.append(repr(e)[:60])
    rep.check('INV-6', 'declarations.directlyProvides',
              bool(vals) and not bad and not inplace,
              'replaces object.__provides__ by a (different) specification '
              'object %s, never mutates the old one in place %s'
              % (sorted(set(vals))[:3], inplace), construct='replace', node=f)
    rep.check('INV-6', 'declarations.directlyProvides', bool(ss) and not missing,
              'every normal path stores object.__provides__ (%d of %d do not)'
              % (missing, len(ss)), construct='all-paths', node=f)


def inv7(rep, rule='INV-7'):
    """Code that shadows `<registry>.changed` (an instance attribute that
    swallows the notification) suspends INV-1 for the calls it makes in the
    meantime; it owes the notification itself: the shadow is removed on every
    path, and every path on which a mutator of that registry was called in
    between calls `<registry>.changed(<registry>)` after removing it."""
    from ..sympath import summaries as _S
    from .sem import nt as _nt
    MUT = ('register', 'unregister', 'subscribe', 'unsubscribe')
    n_sites = 0
    for rel in ('registry.py', 'adapter.py'):
        m = rep.repo.module(rel)
        for cls in [c for c in ast.walk(m) if isinstance(c, ast.ClassDef)]:
            for name, f in sorted(methods_of(cls).items()):
                if not any(isinstance(x, ast.Attribute) and x.attr == 'changed'
                           and isinstance(x.ctx, ast.Store) for x in ast.walk(f)):
                    continue
                probs = []
                shadowed = set()
                for ps in _S(f, normal_only=False):
                    if getattr(ps, 'infeasible', False):
                        continue
                    st = [(k, e) for k, e in enumerate(ps.events)
                          if e.kind == 'store' and isinstance(e.r, ast.Attribute)
                          and e.r.attr == 'changed']
                    if not st:
                        continue
                    k0, e0 = st[0]
                    X = _nt(e0.r.value)
                    shadowed.add(X)
                    rm = [k for k, e in enumerate(ps.events) if k > k0 and
                          e.kind == 'del' and isinstance(e.r, ast.Attribute)
                          and e.r.attr == 'changed' and _nt(e.r.value) == X]
                    if not rm:
                        if ps.kind != 'raise' or ps.ret_node is not None:
                            probs.append('`%s.changed` stays shadowed on a path' % X)
                        continue
                    muts = [e for k, e in enumerate(ps.events) if k0 < k < rm[0]
                            and e.kind == 'call' and isinstance(e.r, ast.Call)
                            and isinstance(e.r.func, ast.Attribute)
                            and e.r.func.attr in MUT and _nt(e.r.func.value) == X]
                    told = [e for k, e in enumerate(ps.events) if k > rm[0]
                            and e.kind == 'call' and isinstance(e.r, ast.Call)
                            and _nt(e.r.func) == '%s.changed' % X]
                    if muts and not told and ps.kind != 'raise':
                        conds = [c for c, t, p in ps.order if p >= rm[0]]
                        # a condition over storage that the path itself updated
                        # item by item (counters kept in a container that is
                        # not a plain local) is not evaluated by the engine:
                        # the path may be infeasible, so it proves nothing
                        upd = {_nt(e.r) for e in ps.events if e.kind in ('aug', 'store')
                               and isinstance(e.r, (ast.Subscript, ast.Attribute))}
                        if any(u in c for u in upd for c in conds):
                            rep.note('%s: %s.%s has a path whose notification guard '
                                     'reads item-wise updated storage (%s); not decided'
                                     % (rule, cls.name, name, sorted(upd)[:2]))
                            continue
                        probs.append('%s.%s(...) ran with the notification '
                                     'suppressed and %s.changed(%s) is not called '
                                     'afterwards (path conditions after the '
                                     'restore: %s)' % (X, muts[0].r.func.attr, X, X,
                                                       conds[:3]))
                if not shadowed:
                    continue
                n_sites += 1
                rep.check(rule, '%s.%s' % (cls.name, name), not probs,
                          'the notification shadowed on %s is restored on every '
                          'path and delivered whenever a mutator ran in between'
                          % sorted(shadowed) if not probs else
                          {'problems': sorted(set(probs))[:3]},
                          construct='suspended-changed', node=f)
    rep.require_soft(n_sites >= 1, '%s: no code shadows a registry\'s changed() '
                     '(1 confirmed by hand: rebuildUtilityRegistryFromLocalCache)'
                     % rule)


def run(rep):
    repo = rep.repo
    mod = repo.module('adapter.py')
    table = ClassTable(repo, ['adapter.py'])
    rep.rule('INV-1', 'every method of BaseAdapterRegistry (and subclasses) '
             'that writes registration storage (_adapters/_subscribers/'
             '_provided or a container derived from them) reaches '
             'self.changed() on every normal path after the write', floor=8)
    rep.rule('INV-2', 'notification chain: registry.changed bumps the '
             'generation and calls lookup.changed; AdapterRegistry notifies '
             'every sub-registry; AdapterLookupBase.changed -> super() resolves '
             '(MRO) to LookupBase.changed / VerifyingBase.changed; the '
             'terminal clears every cache field', floor=12)
    rep.rule('INV-3', 'registry __bases__ assignment: stores, recomputes ro, '
             'calls changed(); setter and subclasses route to it', floor=7)
    rep.rule('INV-4', 'specification edge: every _uncached_* subscribes to the '
             'complete required tuple on every normal exit; _subscribe records '
             'and subscribes all; caches are filled only with the value of the '
             'matching self._uncached_*(required, provided[, name]) call',
             floor=8)
    rep.rule('INV-5', 'verifying lookups: every entry point that reads a cache '
             'runs _verify() first; _verify compares current base generations '
             'with the snapshot and calls changed()', floor=5)
    rep.rule('INV-6', 'instance declarations replace __provides__ by another '
             'specification object (a different cache key), never mutate in '
             'place', floor=2)
    rep.rule('INV-7', 'suspended notification: code that shadows a registry\'s '
             'changed() while it calls its mutators restores it on every path and '
             'then delivers changed() on every path on which a mutator ran', floor=1)
    rep.assume('Specification.changed notifies every dependent (C02 R02.2)')
    rep.assume('class declaration changes go through a __bases__ store on the '
               'class specification (C01 R01.4)')
    rep.decline('invalidation when a *provided* interface\'s __iro__ changes '
                '(outside the statement; the source carries a TODO)')
    inv1(rep, mod, table)
    inv2(rep, mod, table)
    inv3(rep, mod, table)
    inv4(rep, mod, table)
    inv5(rep, mod, table)
    inv6(rep)
    inv7(rep)
    # INV-5 compares generation snapshots by equality: sound only while the
    # counter never returns to an earlier value
    shared.generation_monotone(rep, 'INV-5', mod)
    from . import cside
    cside.c05(rep)
