"""C12 - interfaces have a total, hash-consistent, process-independent order.

The comparison code touches its operands only through comparisons of the two
key components, so its behaviour is a finite decision table over
{other is self, other is None, attribute missing} + {cmp(name)} x {cmp(module)}
x 6 operators; the table of the Python reference and of the C accelerator are
enumerated by the analyser and compared with the specification."""
import ast

from ..core import AnalysisError, norm_src
from ..pyfront import (find_def, find_all, match, walk_local, methods_of,
                       dotted, ClassTable)
from ..peval import Interp, Opaque, outcome, Raised
from ..ceval import CInterp, Sym
from ..cfront import ccfg, show, node_calls
from . import cside
from .cside import ccheck
from .sem import nt
from ..sympath import summaries, normal

OPS = {'__lt__': 0, '__le__': 1, '__eq__': 2, '__ne__': 3, '__gt__': 4, '__ge__': 5}
OPNAME = {v: k for k, v in OPS.items()}
TABLES = {}


def spec(kind, cn, cm, op):
    if kind == 'self':
        return op in (1, 2, 5)
    if kind == 'none':
        c = -1
    elif kind in ('missing_name', 'missing_module'):
        return 'NotImplemented'
    else:
        c = cn if cn != 0 else cm
    return {0: c < 0, 1: c <= 0, 2: c == 0, 3: c != 0, 4: c > 0, 5: c >= 0}[op]


def cases():
    yield ('self', 0, 0)
    yield ('none', 0, 0)
    yield ('missing_name', 0, 0)
    yield ('missing_module', 0, 0)
    for kind in ('ib', 'foreign'):
        for cn in (-1, 0, 1):
            for cm in (-1, 0, 1):
                yield (kind, cn, cm)


# ---------------------------------------------------------------------------
# Python reference

def py_table(mod):
    mixin = find_def(mod, 'NameAndModuleComparisonMixin')
    ib = find_def(mod, 'InterfaceBase')
    funcs = dict(methods_of(mixin))
    funcs.update({k: v for k, v in methods_of(ib).items() if k in ('__eq__', '__ne__')})
    compare = funcs['_compare']
    table = {}
    atoms = set()
    for kind, cn, cm in cases():
        selfo = Opaque(('self',), attrs={'__name__': Opaque(1 + cn, label='self.name'),
                                         '__module__': Opaque(1 + cm, label='self.module')},
                       label='self')
        if kind == 'self':
            other = selfo
        elif kind == 'none':
            other = None
        else:
            attrs = {'__name__': Opaque(1, label='other.name'),
                     '__module__': Opaque(1, label='other.module')}
            if kind == 'missing_name':
                del attrs['__name__']
            if kind == 'missing_module':
                del attrs['__module__']
            other = Opaque(('other',), attrs=attrs, label='other')
        for mname, op in OPS.items():
            it = Interp(functions={'self._compare': compare})
            try:
                out = outcome(it, funcs[mname], [selfo, other])
            except AnalysisError as e:
                table[(kind, cn, cm, op)] = 'UNDECIDED: %s' % e
                continue
            atoms |= it.atoms
            if out[0] == 'raise':
                v = 'raise ' + out[1]
            else:
                v = out[1]
            table[(kind, cn, cm, op)] = v
    return table, atoms, funcs


# ---------------------------------------------------------------------------
# C accelerator

class RCModel:
    def __init__(self, kind, cn, cm):
        self.kind, self.cn, self.cm = kind, cn, cm
        self.selfo = Sym('self')
        self.other = self.selfo if kind == 'self' else (
            None if kind == 'none' else Sym('other'))
        self.err = None
        self.g = {n: Sym(n) for n in ('Py_None', 'Py_True', 'Py_False',
                                      'Py_NotImplemented',
                                      'PyExc_AttributeError', 'str__name__',
                                      'str__module__')}
        self.comp = {}

    def component(self, role, side):
        k = (role, side)
        if k not in self.comp:
            self.comp[k] = Sym('%s.%s' % (side, role))
        return self.comp[k]

    def glob(self, name):
        if name not in self.g:
            self.g[name] = Sym(name)
        return self.g[name]

    def other_val(self):
        return self.g['Py_None'] if self.kind == 'none' else self.other

    def field(self, base, name):
        role = {'__name__': 'name', '__module__': 'module'}.get(name)
        if role is None:
            raise AnalysisError('unexpected field %s in comparison code' % name)
        if base is self.selfo and self.kind != 'self':
            return self.component(role, 'self')
        if base is self.selfo:
            return self.component(role, 'self')
        if base is self.other:
            return self.component(role, 'other')
        raise AnalysisError('field %s of unknown object' % name)

    def setfield(self, base, name, v):
        raise AnalysisError('comparison code stores to a field')

    def sign(self, a, b):
        """sign of cmp(a, b) for component symbols / tuples of them."""
        if isinstance(a, tuple) and isinstance(b, tuple):
            for x, y in zip(a[1:], b[1:]):
                s = self.sign(x, y)
                if s != 0:
                    return s
            return 0
        inv = {v: k for k, v in self.comp.items()}
        if a in inv and b in inv:
            (ra, sa), (rb, sb) = inv[a], inv[b]
            if ra != rb:
                raise AnalysisError('comparison of %s with %s' % (a, b))
            c = self.cn if ra == 'name' else self.cm
            if self.kind == 'self':
                c = 0
            if sa == sb:
                return 0
            return c if sa == 'self' else -c
        raise AnalysisError('comparison of unknown values %r %r' % (a, b))

    def call(self, name, args, interp, env):
        g = self.g
        if name in ('Py_INCREF', 'Py_XINCREF', 'Py_DECREF', 'Py_XDECREF', 'Py_CLEAR'):
            return None
        if name == 'Py_TYPE':
            return Sym('type')
        if name == '_get_interface_base_class':
            return Sym('InterfaceBase')
        if name == 'PyObject_TypeCheck':
            return 1 if (args[0] is self.other and self.kind == 'ib') or \
                (args[0] is self.selfo) else 0
        if name == 'PyObject_GetAttr':
            ob, attr = args
            role = {'str__name__': 'name', 'str__module__': 'module'}.get(
                getattr(attr, 'name', None))
            if role is None:
                raise AnalysisError('unexpected attribute probe %r' % (attr,))
            if ob is self.g['Py_None'] or ob is None:
                self.err = 'AttributeError'
                return None
            if self.kind == 'missing_' + role:
                self.err = 'AttributeError'
                return None
            side = 'self' if ob is self.selfo else 'other'
            return self.component(role, side)
        if name == 'PyErr_Occurred':
            return Sym('exc') if self.err else None
        if name == 'PyErr_ExceptionMatches':
            return 1 if self.err == getattr(args[0], 'name', '')[6:] else 0
        if name == 'PyErr_Clear':
            self.err = None
            return None
        if name == 'PyObject_RichCompareBool':
            a, b, op = args
            s = self.sign(a, b)
            return int({0: s < 0, 1: s <= 0, 2: s == 0, 3: s != 0, 4: s > 0,
                        5: s >= 0}[op])
        if name == 'PyObject_RichCompare':
            a, b, op = args
            s = self.sign(a, b)
            r = {0: s < 0, 1: s <= 0, 2: s == 0, 3: s != 0, 4: s > 0, 5: s >= 0}[op]
            return g['Py_True'] if r else g['Py_False']
        if name == 'PyTuple_Pack':
            return ('tuple',) + tuple(args[1:])
        if name == 'PyObject_IsTrue':
            return 1 if args[0] is g['Py_True'] else 0
        if name == 'PyBool_FromLong':
            return g['Py_True'] if interp.truth(args[0]) else g['Py_False']
        raise AnalysisError('call %s is outside the comparison model' % name)


def c_table(u):
    f = u.func('IB_richcompare')
    table = {}
    for kind, cn, cm in cases():
        for op in range(6):
            m = RCModel(kind, cn, cm)
            it = CInterp(m)
            try:
                v = it.run(f, [m.selfo, m.other_val(), op])
            except AnalysisError as e:
                table[(kind, cn, cm, op)] = 'UNDECIDED: %s' % e
                continue
            if v is m.g['Py_True']:
                r = True
            elif v is m.g['Py_False']:
                r = False
            elif v is m.g['Py_NotImplemented']:
                r = 'NotImplemented'
            elif v is None:
                r = 'error' if m.err else 'NULL-without-error'
            else:
                r = repr(v)
            table[(kind, cn, cm, op)] = r
    return table


def compare_tables(rep, rule, site, table, config, node=None):
    bad = []
    for (kind, cn, cm, op), got in sorted(table.items(), key=str):
        if config == 'PY' and kind == 'foreign':
            pass
        want = spec(kind, cn, cm, op)
        if got != want:
            bad.append({'case': kind, 'cmp_name': cn, 'cmp_module': cm,
                        'op': OPNAME[op], 'code': got, 'spec': want})
    detail = ('%d cases (4 special + 2 x 9 orderings, x 6 operators) agree with '
              '"lexicographic on (name, module); None greatest; NotImplemented '
              'for foreign objects; != is the negation of =="' % len(table))
    if bad:
        detail = {'disagreements': len(bad), 'first': bad[:4]}
    if config == 'C':
        ccheck(rep, rule, site, not bad, detail, construct='table')
    else:
        rep.check(rule, site, not bad, detail, construct='table', node=node)
    return not bad


def py_hash_key(h):
    """problems of the Python __hash__ (empty = holds), over path summaries"""
    # over path summaries: a miss (AttributeError on the memo) computes
    # hash((self.__name__, self.__module__)), stores it in the memo and
    # returns it; a hit returns the memo; nothing else is hashed
    KEY = 'hash((self.__name__, self.__module__))'
    MEMO = 'self._v_cached_hash'
    probs, hit, miss = [], 0, 0
    for ps in normal(summaries(h)):
        hashes = [e for e in ps.events if e.kind == 'call' and
                  isinstance(e.r.func, ast.Name) and e.r.func.id == 'hash']
        sts = ps.stores()
        ret = nt(ps.ret)
        if not hashes and not sts:
            hit += 1
            if ret != MEMO:
                probs.append('hit path returns `%s`' % ret[:60])
            continue
        miss += 1
        if [nt(e.r) for e in hashes] != [KEY]:
            probs.append('hashes %s' % [nt(e.r)[:60] for e in hashes])
        if [(nt(e.r), nt(e.val)) for e in sts] != [(MEMO, KEY)]:
            probs.append('stores %s' % [repr(e)[:80] for e in sts])
        if ret not in (MEMO, KEY):
            probs.append('miss path returns `%s`' % ret[:60])
    if not (hit and miss):
        probs.append('hit paths %d, miss paths %d' % (hit, miss))
    return probs


def c_hash_key(u):
    """problems of IB__hash__ over its path summaries: a memo hit returns the
    memo; a miss hashes PyTuple_Pack(2, name, module), stores and returns it;
    error paths return -1"""
    from .csem import S, calls, ret
    PACK = 'PyTuple_Pack(2, self->__name__, self->__module__)'
    MEMO = 'self->_v_cached_hash'
    probs, hit, miss = [], 0, 0
    for ps in S(u, 'IB__hash__'):
        if ps.kind != 'return':
            continue
        hs = calls(ps, 'PyObject_Hash')
        sts = [e for e in ps.events if e.kind == 'store']
        r = ret(ps)
        if not hs:
            if sts:
                probs.append('stores %s without hashing' % [repr(e)[:60] for e in sts])
            if r == '-1':
                continue
            hit += 1
            if r != MEMO or ps.facts.get(MEMO) is not True:
                probs.append('returns `%s` without a computed hash' % r[:60])
            continue
        miss += 1
        want = 'PyObject_Hash(%s)' % PACK
        if [show(e.e) for e in hs] != [want]:
            probs.append("hashes %s" % [show(e.e)[:80] for e in hs])
        if [(show(e.e), show(e.val)) for e in sts] != [(MEMO, want)]:
            probs.append('stores %s' % [repr(e)[:80] for e in sts])
        if r not in (MEMO, want):
            probs.append('miss path returns `%s`' % r[:60])
    if not (hit and miss):
        probs.append('hit paths %d, miss paths %d' % (hit, miss))
    return sorted(set(probs))


KEY_FIELDS = ('__name__', '__module__', '__ibmodule__')


def _effects_of(mod, cls_name, meth):
    """(writes a key component of self, may hash self) for Class.meth, from its
    own path summaries; one level of `Other.__init__(self, ..)` is followed"""
    from ..sympath import summaries as _S
    from .sem import nt as _nt
    try:
        f = find_def(mod, '%s.%s' % (cls_name, meth))
    except AnalysisError:
        return None
    writes = hashes = False
    for ps in _S(f, normal_only=False):
        for e in ps.events:
            if e.kind == 'store' and isinstance(e.r, ast.Attribute) and \
                    _nt(e.r.value) == 'self':
                if e.r.attr in KEY_FIELDS:
                    writes = True
                if e.r.attr == '__bases__':
                    hashes = True         # the setter subscribes self to each base
            if e.kind == 'call' and isinstance(e.r, ast.Call):
                t = _nt(e.r)
                if t == 'hash(self)' or (
                        isinstance(e.r.func, ast.Attribute) and
                        e.r.func.attr in ('subscribe', 'add', 'setdefault') and
                        any(_nt(a) == 'self' for a in e.r.args)):
                    hashes = True
            if e.kind == 'store' and isinstance(e.r, ast.Subscript) and \
                    _nt(e.r.slice) == 'self':
                hashes = True
    return writes, hashes


def key_final_before_hash(rep, mod, rule):
    from ..sympath import summaries as _S, normal as _N
    from .sem import nt as _nt
    f = find_def(mod, 'InterfaceClass.__init__')
    probs = []
    n_w = n_h = 0
    for ps in _N(_S(f)):
        first_hash = None
        for k, e in enumerate(ps.events):
            w = h = False
            if e.kind == 'store' and isinstance(e.r, ast.Attribute) and \
                    _nt(e.r.value) == 'self':
                w = e.r.attr in KEY_FIELDS
                h = e.r.attr == '__bases__'
            elif e.kind == 'call' and isinstance(e.r, ast.Call):
                fn = e.r.func
                if isinstance(fn, ast.Attribute) and isinstance(fn.value, ast.Name) \
                        and e.r.args and _nt(e.r.args[0]) == 'self':
                    eff = _effects_of(mod, fn.value.id, fn.attr)
                    if eff is not None:
                        w, h = eff
                elif _nt(e.r) == 'hash(self)':
                    h = True
            if h and first_hash is None:
                first_hash = _nt(e.r)[:50]
                n_h += 1
            if w:
                n_w += 1
                if first_hash is not None:
                    probs.append('`%s` writes a component of the key after `%s` could '
                                 'already have hashed (and memoised the hash of) the '
                                 'new interface' % (_nt(e.r)[:50], first_hash))
    rep.require(n_w >= 1 and n_h >= 1, 'InterfaceClass.__init__: no key writer / no '
                'hashing step recognised (%d/%d)' % (n_w, n_h))
    rep.check(rule, 'InterfaceClass.__init__', not probs,
              'every writer of (__name__, __module__) runs before the first step that '
              'can hash the interface' if not probs else
              {'problems': sorted(set(probs))[:3]}, construct='key-final', node=f)


ORDERING = (ast.Lt, ast.LtE, ast.Gt, ast.GtE)


def eq_no_ordering(rep, rule, mod, u):
    """Equality is decided by equality of the key components alone: no path of
    __eq__ / __ne__ (through the methods of self they call) evaluates an
    ordering comparison of the keys - that raises TypeError for components that
    are unequal but not orderable (a `__name__` of None), where the other
    implementation answers.  C side: IB_richcompare hands the caller's operator
    through, its only fixed operator is Py_EQ."""
    from ..sympath import summaries as _S
    ib = find_def(mod, 'InterfaceBase')
    ms = methods_of(ib)
    # methods of the comparison mixin are reachable through self
    for b in ib.bases:
        try:
            bc = find_def(mod, dotted(b))
        except AnalysisError:
            continue
        for k, v in methods_of(bc).items():
            ms.setdefault(k, v)

    def ordering_in(f, seen):
        out = []
        for ps in _S(f, normal_only=False):
            exprs = [ps.ret] if ps.ret is not None else []
            exprs += [getattr(e, 'val', None) for e in ps.events
                      if e.kind in ('store', 'aug')]
            for c, t, p in ps.order:
                try:
                    exprs.append(ast.parse(c, mode='eval').body)
                except SyntaxError:
                    pass
            for x in exprs:
                if x is None:
                    continue
                for n in ast.walk(x):
                    if isinstance(n, ast.Compare) and any(isinstance(o, ORDERING)
                                                          for o in n.ops):
                        txt = norm_src(n)
                        if '__name__' in txt or '__module__' in txt:
                            out.append(txt[:80])
            for e in ps.events:
                if e.kind == 'call' and isinstance(e.r, ast.Call) and \
                        isinstance(e.r.func, ast.Attribute) and nt(e.r.func.value) == 'self':
                    g = ms.get(e.r.func.attr)
                    if g is not None and g.name not in seen:
                        seen.add(g.name)
                        out += ['%s: %s' % (g.name, t_) for t_ in ordering_in(g, seen)]
        return out
    for name in ('__eq__', '__ne__'):
        f = ms.get(name)
        rep.require(f is not None, 'InterfaceBase.%s vanished' % name)
        found = sorted(set(ordering_in(f, {name})))
        rep.check(rule, 'InterfaceBase.' + name, not found,
                  'equality is decided without ordering the keys' if not found else
                  {'ordering_comparisons_evaluated': found[:2],
                   'consequence': 'for keys that are unequal but not orderable (an '
                                  'interface whose __name__ is None against a named '
                                  'one) %s raises TypeError; the C twin compares the '
                                  'components with Py_EQ only and answers' % name},
                  construct='eq-orders-keys', node=f)
    fixed = set()
    # over path summaries, so that comparisons moved into new static helpers are
    # seen with the operator the caller handed them
    from . import csem as _csem6
    for ps_ in _csem6.S(u, 'IB_richcompare'):
        for e_ in ps_.events:
            if e_.kind == 'call' and e_.name in ('PyObject_RichCompare',
                                                 'PyObject_RichCompareBool'):
                a_ = _csem6.args_of(e_)
                if len(a_) == 3:
                    fixed.add(a_[2])
    okc = fixed <= {'op', 'Py_EQ', 'Py_NE', '2', '3'}      # Py_EQ = 2, Py_NE = 3
    ccheck(rep, rule, 'IB_richcompare', okc and bool(fixed),
           'component comparisons use the caller\'s operator or Py_EQ (%s)'
           % sorted(fixed), construct='eq-orders-keys')


def run(rep):
    repo = rep.repo
    mod = repo.module('interface.py')
    dmod = repo.module('declarations.py')
    rep.rule('R12.1', 'decision tables of the six comparison operators (Python '
             'reference and C accelerator) over all orderings equal the '
             'specification table', floor=2)
    rep.rule('R12.2', 'hash key = equality key: hash of the tuple (__name__, '
             '__module__), same components and order, in Python and C; the '
             'memo is written only there', floor=2)
    rep.rule('R12.5', 'the key is final before the hash can be memoised: in the '
             'constructor of an interface every step that writes a component of the '
             'key (__name__, __module__) comes before the first step that can hash '
             'the new object (linking it to its bases makes it a key of their '
             'dependents mapping)', floor=1)
    rep.rule('R12.6', 'equality never orders: __eq__/__ne__ are decided by equality of '
             '(__name__, __module__) alone, in Python and in C, so that unequal keys '
             'that are not orderable compare unequal instead of raising', floor=3)
    rep.rule('R12.3', 'Implements is orderable together with interfaces (same '
             'mixin) and keeps identity equality/hash; its name is a function '
             'of __module__/__name__ only', floor=3)
    rep.rule('R12.4', 'no id()/hash()/repr() and no set/dict iteration in the '
             'ordering code (process and hash-seed independence)', floor=2)
    rep.decline('none: a lexicographic product of two total orders is a total '
                'order, so the table gives the laws for all strings')
    rep.assume('__name__/__module__ are compared with the builtin operators '
               'of their values (str); the table abstracts each comparison to '
               'its sign')

    # ---- R12.1 ---------------------------------------------------------------
    ptable, atoms, funcs = py_table(mod)
    TABLES['py_cases'] = len(ptable)
    TABLES['py_atoms'] = sorted(atoms)
    compare_tables(rep, 'R12.1', 'NameAndModuleComparisonMixin/InterfaceBase',
                   ptable, 'PY', node=funcs['_compare'])
    u = cside.cu(rep)
    ctable = c_table(u)
    TABLES['c_cases'] = len(ctable)
    compare_tables(rep, 'R12.1', 'IB_richcompare', ctable, 'C')

    # ---- R12.2 ---------------------------------------------------------------
    ib = find_def(mod, 'InterfaceBase')
    h = methods_of(ib)['__hash__']
    probs = py_hash_key(h)
    ok = not probs
    st = [n for n in ast.walk(ib) if isinstance(n, (ast.Assign, ast.AugAssign)) and any(
        isinstance(t, ast.Attribute) and t.attr == '_v_cached_hash'
        for t in (n.targets if isinstance(n, ast.Assign) else [n.target]))]
    owners = set()
    for n in st:
        for fn_ in ast.walk(ib):
            if isinstance(fn_, (ast.FunctionDef, ast.AsyncFunctionDef)) and \
                    any(x is n for x in ast.walk(fn_)):
                owners.add(fn_.name)
    okst = owners <= {'__hash__'}
    rep.check('R12.2', 'InterfaceBase.__hash__', ok and okst,
              'hash((self.__name__, self.__module__)) computed on a memo miss, '
              'stored and returned; memo written only in __hash__ (%s) %s'
              % (okst, sorted(set(probs))[:3]), construct='hash-key', node=h)
    cprobs = c_hash_key(u)
    ok = not cprobs
    writers = []
    for name, fn in u.funcs.items():
        for n in ccfg(fn).nodes:
            if n.e is None:
                continue
            for x in n.e.walk():
                if x.k == 'assign' and x.a[1] is not None and x.a[1].k == 'field' \
                        and x.a[1].a[1] == '_v_cached_hash':
                    writers.append(name)
    ccheck(rep, 'R12.2', 'IB__hash__', ok and set(writers) <= {'IB__hash__'},
           'hashes PyTuple_Pack(2, self->__name__, self->__module__); memo '
           'written by %s %s' % (sorted(set(writers)), cprobs[:3]), construct='hash-key')

    # ---- R12.6 ---------------------------------------------------------------
    eq_no_ordering(rep, 'R12.6', mod, u)

    # ---- R12.5 ---------------------------------------------------------------
    key_final_before_hash(rep, mod, 'R12.5')

    # ---- R12.3 ---------------------------------------------------------------
    imp = find_def(dmod, 'Implements')
    bases = [dotted(b) for b in imp.bases]
    rep.check('R12.3', 'Implements', 'NameAndModuleComparisonMixin' in bases,
              'bases %s include the comparison mixin' % bases, construct='mixin',
              node=imp)
    own = set(methods_of(imp)) & {'__eq__', '__ne__', '__hash__', '__lt__',
                                  '__le__', '__gt__', '__ge__', '_compare'}
    rep.check('R12.3', 'Implements', not own,
              'defines none of the comparison/hash methods itself (identity '
              'equality, inherited ordering): %s' % sorted(own),
              construct='identity-eq', node=imp)
    f = find_def(dmod, '_implements_name')
    p = f.args.args[0].arg
    attrs = sorted({c.args[1].value for c in ast.walk(f) if isinstance(c, ast.Call)
                    and dotted(c.func) == 'getattr' and len(c.args) >= 2
                    and isinstance(c.args[1], ast.Constant)})
    calls = sorted({dotted(c.func) for c in ast.walk(f) if isinstance(c, ast.Call)
                    and dotted(c.func)})
    rep.check('R12.3', 'declarations._implements_name',
              attrs == ['__module__', '__name__'] and set(calls) <= {'getattr'},
              'name built from %s only (calls %s)' % (attrs, calls),
              construct='name', node=f)

    # ---- R12.4 ---------------------------------------------------------------
    banned = {'id', 'hash', 'repr', 'object.__repr__', 'set', 'frozenset', 'dict',
              'sorted', 'vars', 'dir'}
    bad = []
    for name, fn in funcs.items():
        if name == '__hash__':
            continue
        for c in ast.walk(fn):
            if isinstance(c, ast.Call) and dotted(c.func) in banned:
                bad.append('%s: %s' % (name, norm_src(c)))
    for c in ast.walk(find_def(dmod, '_implements_name')):
        if isinstance(c, ast.Call) and dotted(c.func) in banned:
            bad.append('_implements_name: %s' % norm_src(c))
    rep.check('R12.4', 'comparison functions (PY)', not bad,
              'no id/hash/repr/set/dict in the ordering code: %s' % bad,
              construct='determinism', node=funcs['_compare'])
    f = u.func('IB_richcompare')
    cn = sorted({c.a[0] for n in ccfg(f).nodes for c in node_calls(n)
                 if isinstance(c.a[0], str)})
    badc = [c for c in cn if c in ('PyObject_Hash', 'PyObject_Repr', 'PyObject_Str',
                                   'PyLong_FromVoidPtr')]
    ccheck(rep, 'R12.4', 'IB_richcompare', not badc,
           'calls made by the C comparison: %s' % cn, construct='determinism')


def extra_coverage(rep):
    return {'exhaustive': True, 'decision_tables': TABLES}
