"""Rule fragments shared by several properties (adapter.py walkers etc.)."""
import ast

from ..core import AnalysisError, norm_src
from ..pyfront import (find_def, find_all, match, walk_local, dotted, same,
                       calls_in, names_in, is_const)
from ..flowq import (iter_polarity, resolve_local, loops_over, pred_of,
                     witness_path, nodes_with)
from ..cfg import cfg_of, header_expr


def params(func):
    return [a.arg for a in func.args.args]


# ---------------------------------------------------------------------------

def required_normalised(func):
    """``required`` is rebound to tuple([_convert_None_to_Interface(r) for r
    in required]) before any other use of it."""
    ps = params(func)
    req = 'required'
    if req not in ps:
        return False, 'no parameter named required'
    conv = None
    for st in func.body:
        if isinstance(st, ast.Assign) and len(st.targets) == 1 and \
                isinstance(st.targets[0], ast.Name) and st.targets[0].id == req:
            conv = st
            break
        # statements before the conversion must not read `required` except
        # to pass it on unchanged to a sibling that normalises itself
        if req in names_in(st):
            for c in calls_in(st):
                pass
            # register() hands (required, ...) to self.unregister before
            # normalising - accepted only for that delegation
            uses = [n for n in ast.walk(st) if isinstance(n, ast.Name) and n.id == req]
            okuse = all(isinstance(u.parent, ast.Call) and
                        dotted(u.parent.func) in ('self.unregister',)
                        for u in uses)
            if not okuse:
                return False, ('`required` used before normalisation in `%s`'
                               % norm_src(st)[:80])
    if conv is None:
        return False, 'no `required = tuple([_convert_None_to_Interface(r) ...])`'
    v = conv.value
    inner = v
    if isinstance(v, ast.Call) and isinstance(v.func, ast.Name) and \
            v.func.id == 'tuple' and len(v.args) == 1:
        inner = v.args[0]
    else:
        return False, 'normalised required is not a tuple: %s' % norm_src(v)
    env = match('[_convert_None_to_Interface($r) for $r in required]', inner) \
        or match('(_convert_None_to_Interface($r) for $r in required)', inner) \
        or match('map(_convert_None_to_Interface, required)', inner)
    if env is None:
        return False, 'required normalised as `%s`' % norm_src(v)
    return True, 'required = %s' % norm_src(v)


# ---------------------------------------------------------------------------

def check_registry_walk(rep, rule, func, want_dir, helper, first_hit,
                        storage='_adapters', site=None, tail_args=None,
                        returns=None):
    """The `_uncached_*` registry walk: source self._registry.ro, direction,
    combinator, skip conditions, helper call arguments."""
    site = site or 'AdapterLookupBase.' + func.name
    lps = [(n, d, env) for n, d, env in loops_over(func, 'self._registry.ro')
           if isinstance(n, ast.For)]
    # no other source of registries
    other = []
    for n in walk_local(func):
        if isinstance(n, ast.Attribute) and n.attr == '__bases__':
            other.append(norm_src(n))
    if len(lps) != 1:
        rep.check(rule, site, False,
                  'expected exactly one loop over self._registry.ro, found %d'
                  % len(lps), construct='source', node=func)
        return None
    lp, d, _ = lps[0]
    rep.check(rule, site, not other,
              'registries come from self._registry.ro only (other sources: %s)'
              % other, construct='source', node=lp)
    rep.check(rule, site, d == want_dir,
              'walk over self._registry.ro is %s (required %s)' % (d, want_dir),
              construct='direction', node=lp)
    rv = lp.target.id if isinstance(lp.target, ast.Name) else None
    rep.require(rv is not None, '%s: loop target not a name' % site)
    # helper call
    calls = [c for c in calls_in(lp) if isinstance(c.func, ast.Name)
             and c.func.id == helper]
    if len(calls) != 1:
        rep.check(rule, site, False,
                  'expected one call of %s in the registry loop, found %d'
                  % (helper, len(calls)), construct='helper', node=lp)
        return lp
    call = calls[0]
    # first argument is byorder[order] of the registry's storage
    a0 = resolve_local(func, call.args[0])
    env = match('$b[order]', a0)
    okst = False
    if env is not None:
        b = resolve_local(func, env['b'])
        okst = match('%s.%s' % (rv, storage), b) is not None
    rep.check(rule, site, okst,
              'helper walks `%s` (required: %s.%s[order])'
              % (norm_src(a0), rv, storage), construct='storage', node=call)
    # order = len(required)
    order_def = resolve_local(func, ast.Name(id='order', ctx=ast.Load()))
    rep.check(rule, site, match('len(required)', order_def) is not None,
              'order = %s (required len(required))' % norm_src(order_def),
              construct='order', node=func)
    # extendors come from the same registry's lookup object, keyed by provided
    ext_arg = call.args[2] if len(call.args) > 2 else None
    okext = False
    dext = 'no extendor argument'
    if ext_arg is not None and isinstance(ext_arg, ast.Name):
        vals = [n.value for n in walk_local(lp) if isinstance(n, ast.Assign)
                and isinstance(n.targets[0], ast.Name)
                and n.targets[0].id == ext_arg.id]
        dext = [norm_src(v) for v in vals]
        want = '%s._v_lookup._extendors.get(provided)' % rv
        okext = any(match(want, v) is not None for v in vals) and all(
            match(want, v) is not None or match('(provided,)', v) is not None
            for v in vals)
    rep.check(rule, site, okext,
              'extendors taken from %s (required %s._v_lookup._extendors.get(provided))'
              % (dext, rv), construct='extendors', node=call)
    if tail_args is not None:
        got = [norm_src(a) for a in call.args[1:]]
        exp = ['required', ext_arg.id if isinstance(ext_arg, ast.Name) else '?'] + list(tail_args)
        rep.check(rule, site, got == exp and not call.keywords,
                  'helper arguments %s (required %s)' % (got, exp),
                  construct='helper-args', node=call)
    if returns is not None:
        rets = [n for n in walk_local(func) if isinstance(n, ast.Return)]
        rep.check(rule, site, bool(rets) and all(
            r.value is not None and match(returns, r.value) is not None
            for r in rets),
            'returns %s (required %s)' % ([norm_src(r.value) for r in rets], returns),
            construct='returns', node=func)
    # skip conditions: every `continue` is guarded by one of the accepted tests
    accepted = ['order >= len($b)', 'len($b) <= order', 'not $e', '$e is None']
    bad = []
    for n in walk_local(lp):
        if isinstance(n, ast.Continue):
            g = n.parent
            if not isinstance(g, ast.If) or n not in g.body:
                bad.append('unguarded continue')
                continue
            if not any(match(p, g.test) is not None for p in accepted):
                bad.append(norm_src(g.test))
            else:
                for p in accepted[2:]:
                    e = match(p, g.test)
                    if e is not None and not (isinstance(e['e'], ast.Name)
                                              and ext_arg is not None and
                                              e['e'].id == ext_arg.id):
                        bad.append(norm_src(g.test))
    rep.check(rule, site, not bad,
              'registries skipped only when they have no storage of this order '
              'or no extendors for provided (other skip tests: %s)' % bad,
              construct='skip', node=lp)
    if first_hit:
        # result = helper(...); if result is not None: break
        from .C04 import first_hit_on_not_none
        ok, detail = first_hit_on_not_none(lp)
        rep.check(rule, site, ok, detail, construct='first-hit', node=lp)
        # the value returned is the helper's result (or an explicit None)
        rets = [n for n in walk_local(func) if isinstance(n, ast.Return)]
        tgt = call.parent.targets[0].id if isinstance(call.parent, ast.Assign) \
            and isinstance(call.parent.targets[0], ast.Name) else None
        okr = bool(rets) and tgt is not None and all(
            (isinstance(r.value, ast.Name) and r.value.id == tgt)
            or r.value is None or is_none(r.value) for r in rets)
        rep.check(rule, site, okr, 'returns the helper result `%s` or None: %s'
                  % (tgt, [norm_src(r) for r in rets]), construct='result',
                  node=func)
        # when the result variable is returned after the loop it must start
        # as None (a miss when no registry answers)
        after = [r for r in rets if isinstance(r.value, ast.Name)
                 and r.parent is func]
        if after:
            init = [st for st in func.body if isinstance(st, ast.Assign)
                    and isinstance(st.targets[0], ast.Name)
                    and st.targets[0].id == tgt]
            rep.check(rule, site, bool(init) and is_none(init[0].value),
                      'result starts as None (miss when no registry answers)',
                      construct='init', node=func)
    else:
        exits = [n for n in walk_local(lp) if isinstance(n, (ast.Break, ast.Return))]
        rep.check(rule, site, not exits,
                  'registry loop visits every registry (early exits: %s)'
                  % [norm_src(e) for e in exits], construct='all', node=lp)
    return lp


def is_none(e):
    return isinstance(e, ast.Constant) and e.value is None


def check_default_tail(rep, rule, func, site):
    """On every path to a normal return the function returns `default` iff
    the looked-up result is None and the result otherwise."""
    rets = [n for n in walk_local(func) if isinstance(n, ast.Return)]
    ok = True
    details = []
    found_default = False
    for r in rets:
        v = r.value
        if isinstance(v, ast.Name) and v.id == 'default':
            found_default = True
            g = r.parent
            if not (isinstance(g, ast.If) and r in g.body and
                    match('$x is None', g.test) is not None):
                ok = False
                details.append('`return default` not guarded by `<result> is None`')
        elif isinstance(v, ast.Name):
            details.append('return %s' % v.id)
        elif isinstance(v, ast.Call):
            details.append('return %s' % norm_src(v))
        else:
            ok = False
            details.append('unexpected return `%s`' % norm_src(v))
    ok = ok and found_default
    # `result` returned after the None test
    rep.check(rule, site, ok, 'returns: %s' % details, node=func)


# ---------------------------------------------------------------------------
# containers derived from registry state, and content writes to them

def _root(expr):
    """Strip subscripts / .get() / .setdefault() calls down to the container
    expression they read from."""
    while True:
        if isinstance(expr, ast.Subscript):
            expr = expr.value
        elif isinstance(expr, ast.Call) and isinstance(expr.func, ast.Attribute) \
                and expr.func.attr in ('get', 'setdefault', 'pop', 'values',
                                       'items', 'keys', '__getitem__'):
            expr = expr.func.value
        elif isinstance(expr, ast.Call) and isinstance(expr.func, ast.Name) \
                and expr.func.id in ('reversed', 'list', 'tuple', 'iter',
                                     'enumerate') and expr.args:
            expr = expr.args[0]
        else:
            return expr


def derived_names(func, root_attrs, recv='self'):
    """Local names that (may) alias a container reachable from
    ``recv.<root_attr>``: fixpoint over assignments, loop targets and
    ``x.append(<tuple containing a derived name>)``."""
    def is_root(e):
        e = _root(e)
        if isinstance(e, ast.Attribute) and isinstance(e.value, ast.Name) \
                and e.value.id == recv and e.attr in root_attrs:
            return True
        return isinstance(e, ast.Name) and (e.id in D or e.id in CARRIERS)
    D = set()
    CARRIERS = set()    # local lists holding (tuples of) derived containers
    changed = True
    while changed:
        changed = False
        for n in walk_local(func):
            new = set()
            if isinstance(n, ast.Assign):
                if is_root(n.value):
                    for t in n.targets:
                        if isinstance(t, ast.Name):
                            new.add(t.id)
            elif isinstance(n, ast.For):
                if is_root(n.iter):
                    for e in ast.walk(n.target):
                        if isinstance(e, ast.Name):
                            new.add(e.id)
            elif isinstance(n, ast.Call) and isinstance(n.func, ast.Attribute) \
                    and n.func.attr in ('append', 'insert', 'extend') and \
                    isinstance(n.func.value, ast.Name):
                for a in n.args:
                    if any(isinstance(x, ast.Name) and x.id in D
                           for x in ast.walk(a)) and \
                            isinstance(a, (ast.Tuple, ast.List)) and \
                            n.func.value.id not in CARRIERS and \
                            n.func.value.id not in D:
                        CARRIERS.add(n.func.value.id)
                        changed = True
            if new - D:
                D |= new
                changed = True
    return D


MUTATORS = ('append', 'extend', 'insert', 'remove', 'pop', 'clear', 'update',
            'setdefault', 'popitem', 'sort', 'reverse', '__setitem__',
            '__delitem__')


def content_writes(func, root_attrs, recv='self'):
    """[(ast node of the write, kind, container expr, value expr|None)] for
    writes into containers derived from recv.<root_attrs> (and rebinding of
    those attributes themselves)."""
    D = derived_names(func, root_attrs, recv)

    def derived(e):
        e = _root(e)
        if isinstance(e, ast.Attribute) and isinstance(e.value, ast.Name) \
                and e.value.id == recv and e.attr in root_attrs:
            return True
        return isinstance(e, ast.Name) and e.id in D
    out = []
    for n in walk_local(func):
        if isinstance(n, ast.Assign):
            for t in n.targets:
                if isinstance(t, ast.Subscript) and derived(t.value):
                    out.append((n, 'setitem', t.value, n.value))
                elif isinstance(t, ast.Attribute) and isinstance(t.value, ast.Name) \
                        and t.value.id == recv and t.attr in root_attrs:
                    out.append((n, 'rebind', t, n.value))
        elif isinstance(n, ast.AugAssign):
            t = n.target
            if isinstance(t, ast.Subscript) and derived(t.value):
                out.append((n, 'setitem', t.value, n.value))
            elif isinstance(t, ast.Name) and t.id in D:
                out.append((n, 'augassign', t, n.value))
            elif isinstance(t, ast.Attribute) and isinstance(t.value, ast.Name) \
                    and t.value.id == recv and t.attr in root_attrs:
                out.append((n, 'rebind', t, n.value))
        elif isinstance(n, ast.Delete):
            for t in n.targets:
                if isinstance(t, ast.Subscript) and derived(t.value):
                    out.append((n, 'delitem', t.value, None))
                elif isinstance(t, ast.Attribute) and isinstance(t.value, ast.Name) \
                        and t.value.id == recv and t.attr in root_attrs:
                    out.append((n, 'rebind', t, None))
        elif isinstance(n, ast.Call) and isinstance(n.func, ast.Attribute) \
                and n.func.attr in MUTATORS and derived(n.func.value):
            # .pop/.setdefault used as reads are still writes
            out.append((n, n.func.attr, n.func.value,
                        n.args[-1] if n.args else None))
    return out, D


def stmt_of(node):
    n = node
    while n is not None and not isinstance(n, ast.stmt):
        n = n.parent
    return n


def is_fresh_container(func, value, at_stmt, factories=('self._mappingType',
                                                        'self._sequenceType',
                                                        'self._providedType')):
    """value is a call of a container factory / an empty literal, or a name
    whose only reaching definition in the same block, immediately before the
    write, is such a call."""
    def fresh(e):
        if isinstance(e, ast.Dict) and not e.keys:
            return True
        if isinstance(e, (ast.List, ast.Tuple)) and not e.elts:
            return True
        if isinstance(e, ast.Call) and not e.args and not e.keywords and \
                dotted(e.func) in factories + ('dict', 'list'):
            return True
        return False
    if value is None:
        return False
    if fresh(value):
        return True
    if isinstance(value, ast.Name):
        blk = None
        p = at_stmt.parent
        for fld in ('body', 'orelse', 'finalbody'):
            b = getattr(p, fld, None)
            if isinstance(b, list) and at_stmt in b:
                blk = b
        if blk is None:
            return False
        i = blk.index(at_stmt)
        if i == 0:
            return False
        prev = blk[i - 1]
        if isinstance(prev, ast.Assign) and len(prev.targets) == 1 and \
                isinstance(prev.targets[0], ast.Name) and \
                prev.targets[0].id == value.id and fresh(prev.value):
            return True
    return False


# ---------------------------------------------------------------------------
# the collecting walkers _lookupAll / _subscriptions

def check_collect_walker(rep, rule, func, leaf, site=None):
    """``leaf`` = 'update' (_lookupAll: result.update(comps), most specific
    must win => reverse walk + last-wins, or forward walk + first-wins) or
    'extend' (_subscriptions: result.extend(comps.get(name)) => reverse walk,
    least specific first)."""
    from .C04 import split_recursive_leaf, probe_is_exact
    site = site or 'adapter.' + func.name
    ps = params(func)
    comp_p, specs_p, prov_p = ps[0], ps[1], ps[2]
    res_p = 'result'
    rep.require(res_p in ps, '%s: no result parameter' % site)
    sp = split_recursive_leaf(rep, func, rule)
    if sp is None:
        rep.check(rule, site, False, 'cannot find the `i < l` split', node=func)
        return
    rec_body, leaf_body, i_n, l_n, ifnode = sp
    n_extra = len(ps)
    # ---- recursive branch
    loops = [s for s in rec_body if isinstance(s, ast.For)]
    if len(loops) != 1:
        rep.check(rule, site, False, 'recursive branch has %d loops' % len(loops),
                  node=ifnode)
    else:
        lp = loops[0]
        src, d = iter_polarity(lp.iter, func)
        rep.check(rule, site, match('%s[%s].__sro__' % (specs_p, i_n), src) is not None,
                  'recursive walk iterates `%s` (required %s[%s].__sro__)'
                  % (norm_src(src), specs_p, i_n), construct='rec-source', node=lp)
        exits = [n for n in walk_local(lp)
                 if isinstance(n, (ast.Break, ast.Return, ast.Continue))]
        rep.check(rule, site, not exits,
                  'recursive walk visits every spec of the __sro__ (early exits: %s)'
                  % [norm_src(e) for e in exits], construct='rec-all', node=lp)
        pe = probe_is_exact(func, lp, {comp_p})
        rep.check(rule, site, bool(pe and pe[0]),
                  'probe keys %s (required: exactly the loop variable)'
                  % (pe[1] if pe else 'none'), construct='rec-probe', node=lp)
        recs = [c for c in calls_in(lp) if isinstance(c.func, ast.Name)
                and c.func.id == func.name]
        okr = len(recs) == 1
        if okr:
            c = recs[0]
            a = c.args
            okr = len(a) == len(ps) and not c.keywords
            for k, pn in enumerate(ps):
                if not okr:
                    break
                if pn == comp_p:
                    okr = not (isinstance(a[k], ast.Name) and a[k].id == comp_p)
                elif pn == i_n:
                    okr = match('%s + 1' % i_n, a[k]) is not None
                else:
                    okr = isinstance(a[k], ast.Name) and a[k].id == pn
        rep.check(rule, site, okr, 'recursion %s passes i+1 and everything else unchanged'
                  % [norm_src(c) for c in recs], construct='recursion', node=lp)
        rec_dir = d
    # ---- leaf branch
    loops = [s for s in leaf_body if isinstance(s, ast.For)]
    if len(loops) != 1:
        rep.check(rule, site, False, 'leaf branch has %d loops' % len(loops),
                  node=ifnode)
        return
    ll = loops[0]
    src, dleaf = iter_polarity(ll.iter, func)
    rep.check(rule, site, isinstance(src, ast.Name) and src.id == prov_p,
              'leaf walk iterates `%s` (required the extendor list `%s`)'
              % (norm_src(src), prov_p), construct='leaf-source', node=ll)
    exits = [n for n in walk_local(ll)
             if isinstance(n, (ast.Break, ast.Return, ast.Continue))]
    rep.check(rule, site, not exits, 'leaf walk visits every extendor (early exits: %s)'
              % [norm_src(e) for e in exits], construct='leaf-all', node=ll)
    pe = probe_is_exact(func, ll, {comp_p})
    rep.check(rule, site, bool(pe and pe[0]),
              'probe keys %s' % (pe[1] if pe else 'none'), construct='leaf-probe',
              node=ll)
    if leaf == 'update':
        ups = find_all(ll, '%s.update($c)' % res_p)
        firsts = find_all(ll, '%s.setdefault($k, $v)' % res_p)
        if ups and not firsts:
            comb = 'last-wins'
        elif firsts and not ups:
            comb = 'first-wins'
        else:
            comb = 'unknown'
        # most specific must win in both dimensions
        want = {'last-wins': 'rev', 'first-wins': 'fwd'}.get(comb)
        rep.check(rule, site, want is not None,
                  'leaf combinator is %s (update=%d setdefault=%d)'
                  % (comb, len(ups), len(firsts)), construct='combinator', node=ll)
        if want:
            rep.check(rule, site, rec_dir == want,
                      'walk over the required spec\'s __sro__ is %s with a %s '
                      'collector => %s specific registration wins per name '
                      '(required: most specific, as lookup())'
                      % (rec_dir, comb, 'most' if rec_dir == want else 'least'),
                      construct='rec-direction', node=ifnode)
            rep.check(rule, site, dleaf == want,
                      'walk over the extendors is %s with a %s collector => %s '
                      'general provided interface wins per name (required: '
                      'most general first in the list wins, as lookup())'
                      % (dleaf, comb, 'most' if dleaf == want else 'least'),
                      construct='leaf-direction', node=ll)
    else:
        name_p = 'name'
        rep.require(name_p in ps, '%s: no name parameter' % site)
        exts = find_all(ll, '%s.extend($c)' % res_p) + \
            find_all(ll, '%s += $c' % res_p, 'exec')
        okx = len(exts) == 1
        dx = 'result.extend calls: %d' % len(exts)
        if okx:
            c = exts[0][1]['c']
            cv = c
            # comps = comps.get(name) rebinding idiom
            gets = [g for g, e in find_all(ll, '$x.get(%s)' % name_p)]
            okx = len(gets) == 1
            dx = 'extends result with the leaf stored under the exact name: %s' % (
                [norm_src(g) for g in gets])
        rep.check(rule, site, okx, dx, construct='combinator', node=ll)
        rep.check(rule, site, rec_dir == 'rev',
                  'walk over the required spec\'s __sro__ is %s (required rev: '
                  'subscribers for less specific required specs first)' % rec_dir,
                  construct='rec-direction', node=ifnode)
        rep.check(rule, site, dleaf == 'rev',
                  'walk over the extendors is %s (required rev)' % dleaf,
                  construct='leaf-direction', node=ll)



def check_registry_walk_collect(rep, rule, func, helper, storage):
    if helper == '_subscriptions':
        return check_registry_walk(rep, rule, func, 'rev', helper, False,
                                   storage=storage,
                                   tail_args=["''", 'result', '0', 'order'],
                                   returns='result')
    return check_registry_walk(rep, rule, func, 'rev', helper, False,
                               storage=storage,
                               tail_args=['result', '0', 'order'],
                               returns='tuple(result.items())')


def descent_ok(func, storage):
    """Key construction shared by register/_find_leaf/unregister/subscribe/
    unsubscribe: order = len(required); byorder = self.<storage> (or the
    byorder parameter); components = byorder[order]; key = required +
    (provided,); descent `for k in key: d = components.get(k) ...
    components = d`."""
    ps = params(func)
    order = resolve_local(func, ast.Name(id='order', ctx=ast.Load()))
    if match('len(required)', order) is None:
        return False, 'order = %s (required len(required))' % norm_src(order)
    by = resolve_local(func, ast.Name(id='byorder', ctx=ast.Load()))
    if 'byorder' in ps:
        pass
    elif match('self.%s' % storage, by) is None:
        return False, 'byorder = %s (required self.%s)' % (norm_src(by), storage)
    key = resolve_local(func, ast.Name(id='key', ctx=ast.Load()))
    if match('required + (provided,)', key) is None:
        return False, 'key = %s (required required + (provided,))' % norm_src(key)
    comp0 = [n for n in walk_local(func) if isinstance(n, ast.Assign)
             and match('components = byorder[order]', n, 'exec') is not None]
    if len(comp0) != 1:
        return False, 'components = byorder[order] not found'
    lps = [lp for lp, d, e in loops_over(func, 'required + (provided,)')
           if isinstance(lp, ast.For)]
    lps = [lp for lp in lps if isinstance(lp.target, ast.Name)]
    if len(lps) != 1:
        return False, 'descent loop over key not found (%d)' % len(lps)
    lp = lps[0]
    d = iter_polarity(lp.iter, func)[1]
    if d != 'fwd':
        return False, 'descent over the key runs %s' % d
    k = lp.target.id
    probe = find_all(lp, '$d = components.get(%s)' % k, 'exec')
    step = find_all(lp, 'components = $d', 'exec')
    if len(probe) != 1 or not step:
        return False, 'descent step `d = components.get(k); components = d` not found'
    if not same(probe[0][1]['d'], step[-1][1]['d']):
        return False, 'descent continues with %s, probed %s' % (
            norm_src(step[-1][1]['d']), norm_src(probe[0][1]['d']))
    return True, ('order=len(required), self.%s[order], descent over required + '
                  '(provided,) with exact keys' % storage)


def _stored_list(text):
    return text.startswith(('self._extendors.get(', 'self._extendors[',
                            'self._extendors.setdefault('))


def extendor_index(rep, rule, mod):
    """over path summaries (list content tracked, loops folded): for every
    interface of provided.__iro__ the extendor list is REPLACED by
    [old entries provided extends] + [provided] + [the other old entries]
    (add) / the old entries != provided (remove); never edited in place"""
    from ..sympath import summaries, normal
    from .sem import nt
    from .rosem import seq_parts, comp_shape
    add = find_def(mod, 'AdapterLookupBase.add_extendor')
    prov = params(add)[1]
    IRO = '%s.__iro__' % prov
    E = 'EACH(%s)' % IRO
    OLD = ('self._extendors.get(%s, ())' % E, 'self._extendors.get(%s, [])' % E)
    probs = []
    n = 0
    for ps in normal(summaries(add, lists=True)):
        sts = [e for e in ps.stores() if isinstance(e.r, ast.Subscript)
               and nt(e.r.value) == 'self._extendors']
        if not ps.facts.get('ITER(%s)' % IRO):
            if sts:
                probs.append('stores without walking provided.__iro__')
            continue
        conds = [c for c, t, p in ps.order if not c.startswith('ITER(')]
        if conds:
            probs.append('the update of an interface of provided.__iro__ depends on '
                         '`%s`' % conds[0][:60])
        if len(sts) != 1 or nt(sts[0].r.slice) != E:
            probs.append('%d stores for an interface of provided.__iro__' % len(sts))
            continue
        n += 1
        parts = seq_parts(sts[0].val)
        ok = len(parts) == 3 and parts[0][0] == 'each' and parts[2][0] == 'each' and \
            parts[1][0] == 'item' and nt(parts[1][1]) == prov
        if ok:
            a_, b_ = comp_shape(parts[0][1]), comp_shape(parts[2][1])
            ok = a_ is not None and b_ is not None and a_[0] == '$' and b_[0] == '$' \
                and a_[1] in OLD and b_[1] == a_[1] and a_[2] == 'fwd' and b_[2] == 'fwd' \
                and a_[3] == ['%s.isOrExtends($)' % prov] \
                and b_[3] == ['not %s.isOrExtends($)' % prov]
        if not ok:
            probs.append('new list `%s` is not [more general...] + [provided] + [rest] '
                         'over the old list of the same key' % nt(sts[0].val)[:160])
        muts = [e for e in ps.events if e.kind == 'call' and
                isinstance(e.r.func, ast.Attribute) and
                e.r.func.attr in ('remove', 'insert', 'append', 'extend', 'pop', 'sort')
                and _stored_list(nt(e.r.func.value))]
        if muts:
            probs.append('edits a stored extendor list in place: `%s`' % nt(muts[0].r)[:60])
    for lp in walk_local(add):
        if isinstance(lp, ast.For) and IRO in norm_src(lp.iter) and \
                [x for x in walk_local(lp) if isinstance(x, (ast.Break, ast.Return))]:
            probs.append('the walk over provided.__iro__ can end early')
    if not n:
        probs.append('no path updates an extendor list')
    rep.check(rule, 'AdapterLookupBase.add_extendor', not probs,
              'for every interface of provided.__iro__: new list = [e | '
              'provided.isOrExtends(e)] + [provided] + [e | not provided.isOrExtends(e)] '
              'over the old list of the same key in self._extendors (a new list '
              'object)' if not probs else {'problems': sorted(set(probs))[:3]},
              construct='order', node=add)
    rem = find_def(mod, 'AdapterLookupBase.remove_extendor')
    prov = params(rem)[1]
    IRO = '%s.__iro__' % prov
    E = 'EACH(%s)' % IRO
    OLD = ('self._extendors.get(%s, ())' % E, 'self._extendors.get(%s, [])' % E)
    probs = []
    n = 0
    for ps in normal(summaries(rem, lists=True)):
        sts = [e for e in ps.stores() if isinstance(e.r, ast.Subscript)
               and nt(e.r.value) == 'self._extendors']
        if not ps.facts.get('ITER(%s)' % IRO):
            if sts:
                probs.append('stores without walking provided.__iro__')
            continue
        conds = [c for c, t, p in ps.order if not c.startswith('ITER(')]
        if conds:
            probs.append('depends on `%s`' % conds[0][:60])
        muts = [e for e in ps.events if e.kind == 'call' and
                isinstance(e.r.func, ast.Attribute) and
                e.r.func.attr in ('remove', 'insert', 'append', 'extend', 'pop', 'sort')
                and _stored_list(nt(e.r.func.value))]
        if muts:
            probs.append('edits a stored extendor list in place: `%s` (lookups in '
                         'progress iterate these lists)' % nt(muts[0].r)[:60])
        if len(sts) != 1 or nt(sts[0].r.slice) != E:
            probs.append('%d stores for an interface of provided.__iro__' % len(sts))
            continue
        n += 1
        parts = seq_parts(sts[0].val)
        sh = comp_shape(parts[0][1]) if len(parts) == 1 and parts[0][0] == 'each' else None
        if sh is None or sh[0] != '$' or sh[1] not in OLD or sh[2] != 'fwd' or \
                sh[3] not in (['$ != %s' % prov], ['not $ == %s' % prov]):
            probs.append('new list `%s`' % nt(sts[0].val)[:120])
    for lp in walk_local(rem):
        if isinstance(lp, ast.For) and IRO in norm_src(lp.iter) and \
                [x for x in walk_local(lp) if isinstance(x, (ast.Break, ast.Return))]:
            probs.append('the walk over provided.__iro__ can end early')
    if not n:
        probs.append('no path updates an extendor list')
    rep.check(rule, 'AdapterLookupBase.remove_extendor', not probs,
              'for every interface of provided.__iro__ keeps exactly the entries '
              'e != provided (equality), in order, as a new list'
              if not probs else {'problems': sorted(set(probs))[:3]},
              construct='remove', node=rem)
    ini = find_def(mod, 'AdapterLookupBase.init_extendors')
    probs = []
    n = 0
    for ps in normal(summaries(ini)):
        reset = [i for i, e in enumerate(ps.events) if e.kind == 'store' and
                 nt(e.r) == 'self._extendors' and nt(e.val) in ('{}', 'dict()')]
        adds = [i for i, e in enumerate(ps.events) if e.kind == 'call' and
                nt(e.r.func) == 'self.add_extendor']
        if len(reset) != 1 or (adds and min(adds) < reset[0]):
            probs.append('the index is not reset first')
        if ps.facts.get('ITER(self._registry._provided)'):
            n += 1
            if [nt(ps.events[i].r) for i in adds] != [
                    'self.add_extendor(EACH(self._registry._provided))']:
                probs.append('a provided interface of the registry is not indexed')
            if [c for c, t, p in ps.order if not c.startswith('ITER(')]:
                probs.append('indexing is conditional')
    if not n:
        probs.append('the registry\'s provided interfaces are not walked')
    rep.check(rule, 'AdapterLookupBase.init_extendors', not probs,
              'a new lookup object indexes every provided interface of the registry'
              if not probs else {'problems': sorted(set(probs))[:3]},
              construct='init', node=ini)




def setter_routes(rep, rule, cls, name, site, target='_setBases', construct='setter'):
    """assigning <obj>.<name> = v runs self.<target>(v) and nothing else,
    however the property is spelled"""
    from ..pyfront import property_accessors
    from ..sympath import summaries, normal
    from .sem import nt
    acc = property_accessors(cls, name)
    f = acc.get('set')
    probs = []
    if f is None:
        probs.append('no setter found for property %s' % name)
    else:
        ps_ = [a.arg for a in f.args.args]
        if len(ps_) != 2:
            probs.append('setter signature %s' % ps_)
        else:
            want = '%s.%s(%s)' % (ps_[0], target, ps_[1])
            ss = normal(summaries(f))
            if not ss:
                probs.append('setter has no normal path')
            for ps in ss:
                ev = [nt(e.r) if e.kind == 'call' else repr(e)[:50] for e in ps.events]
                if ev != [want]:
                    probs.append('setter does `%s` (required `%s`)' % (ev[:3], want))
    rep.check(rule, site, not probs,
              'assignment to %s goes through self.%s(value)' % (name, target)
              if not probs else {'problems': sorted(set(probs))[:3]},
              construct=construct, node=cls)


def generation_monotone(rep, rule, mod):
    """the generation counter only ever moves forward: a verifying sub-registry
    compares snapshots of it by equality, so any other store (a reset in
    __init__, which rebuild() re-runs on a live registry; a restore) can bring
    it back to a value a snapshot already holds and hide the changes in between"""
    writers = []
    for fn in ast.walk(mod):
        if not isinstance(fn, (ast.FunctionDef, ast.AsyncFunctionDef)):
            continue
        for n in ast.walk(fn):
            tgts = []
            if isinstance(n, ast.Assign):
                # `x = x + 1` / `x = 1 + x` is the increment spelled out
                kind_ = 'store'
                v_ = n.value
                if len(n.targets) == 1 and isinstance(v_, ast.BinOp) and \
                        isinstance(v_.op, ast.Add):
                    tt_ = ast.dump(ast.parse(ast.unparse(n.targets[0]), mode='eval').body)
                    for a_, b_ in ((v_.left, v_.right), (v_.right, v_.left)):
                        if isinstance(b_, ast.Constant) and b_.value == 1 and \
                                type(b_.value) is int and ast.dump(a_) == tt_:
                            kind_ = 'increment'
                tgts = [(t, kind_) for t in n.targets]
            elif isinstance(n, ast.AugAssign):
                inc = isinstance(n.op, ast.Add) and isinstance(n.value, ast.Constant) \
                    and n.value.value == 1
                tgts = [(n.target, 'increment' if inc else 'store')]
            elif isinstance(n, ast.Delete):
                tgts = [(t, 'store') for t in n.targets]
            elif isinstance(n, ast.Call) and dotted(n.func) in ('setattr', 'delattr') and \
                    len(n.args) >= 2 and isinstance(n.args[1], ast.Constant) and \
                    n.args[1].value == '_generation':
                writers.append((fn.name, 'store'))
            for t, kind in tgts:
                for x in ast.walk(t):
                    if isinstance(x, ast.Attribute) and x.attr == '_generation' and \
                            isinstance(x.ctx, (ast.Store, ast.Del)):
                        writers.append((fn.name, kind))
    okw = bool(writers) and all(w == ('changed', 'increment') for w in writers)
    rep.check(rule, 'BaseAdapterRegistry._generation', okw,
              'the generation counter is only ever incremented, and only by '
              'changed(): %s' % sorted(set(writers)), construct='monotone',
              node=find_def(mod, 'BaseAdapterRegistry'))
