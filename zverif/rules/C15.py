"""C15 - attribute, tagged-value and invariant resolution all follow the
resolution order."""
import ast

from ..core import AnalysisError, norm_src
from ..pyfront import (find_def, find_all, match, walk_local, dotted, same,
                       calls_in, names_in, methods_of, class_attr_assign)
from ..flowq import (iter_polarity, resolve_local, loops_over, pred_of,
                     witness_path, nodes_with, any_pred)
from ..cfg import cfg_of, header_expr
from . import shared

VALUE_SELECTING = ('get', 'getDescriptionFor', '__getitem__',
                   'queryDescriptionFor', '__contains__',
                   'namesAndDescriptions', 'queryTaggedValue',
                   'getTaggedValue', 'validateInvariants')
SET_VALUED = ('names', '__iter__', 'getTaggedValueTags')


def linearization_source(func):
    """How a method obtains its inherited view:
    'iro' (loop over self.__iro__), 'bases' (recursion over self.__bases__),
    'get' (delegates to self.get / another accessor), 'direct' (own attrs)."""
    kinds = set()
    for n in walk_local(func):
        it = None
        if isinstance(n, (ast.For, ast.comprehension)):
            it = n.iter
        if it is not None:
            src, d = iter_polarity(it, func)
            if match('self.__iro__', src) is not None:
                kinds.add(('iro', d))
            elif match('self.__bases__', src) is not None:
                kinds.add(('bases', d))
            elif match('self.__sro__', src) is not None:
                kinds.add(('sro', d))
    for c in walk_local(func):
        if isinstance(c, ast.Call) and isinstance(c.func, ast.Attribute) and \
                isinstance(c.func.value, ast.Name) and c.func.value.id == 'self' \
                and c.func.attr in ('get', 'queryTaggedValue', 'names',
                                    'namesAndDescriptions'):
            kinds.add(('via:' + c.func.attr, ''))
    return kinds


def run(rep):
    repo = rep.repo
    mod = repo.module('interface.py')
    rep.rule('R15.1', 'every value-selecting accessor of InterfaceClass '
             'resolves its inherited view through __iro__ (directly or via '
             'get()), with the first definer winning; none walks __bases__ '
             '(an independent depth-first linearization)', floor=9)
    rep.rule('R15.2', 'polarity: Specification.get walks __iro__ forward and '
             'stops at the first direct definition; queryTaggedValue likewise '
             'with a sentinel; getTaggedValueTags is the union over __iro__; '
             'validateInvariants runs every invariant of every interface of '
             '__iro__ and collects all failures when given a list', floor=6)
    rep.rule('R15.3', 'the attribute memo _v_attrs is the only memo on this '
             'path, is dropped by Specification.changed on every path, and '
             'only stores found descriptions', floor=3)
    rep.rule('R15.4', 'set-valued accessors (names(all), __iter__) cover every '
             'ancestor; consumers (verify, document) take the inherited view '
             'from namesAndDescriptions(all=True)', floor=3)
    rep.rule('R15.5', 'the accessors follow later __bases__ changes: '
             'Specification.changed recomputes __iro__ on every path and '
             'notifies every dependent unconditionally (same obligations as '
             'C02 R02.1/R02.2)', floor=10)
    rep.decline('none - relative to C02/C03 (what __iro__ is and that it '
                'follows __bases__ changes)')

    ic = find_def(mod, 'InterfaceClass')
    ms = methods_of(ic)
    spec_get = find_def(mod, 'Specification.get')

    # ---- R15.1 --------------------------------------------------------------
    for name in VALUE_SELECTING:
        f = ms.get(name)
        if f is None:
            v = class_attr_assign(ic, name)
            if v is not None and isinstance(v, ast.Name) and v.id in ms:
                rep.check('R15.1', 'InterfaceClass.' + name, True,
                          'alias of %s' % v.id, construct='alias', node=ic)
                continue
            if name == 'get':
                f = spec_get
            else:
                rep.check('R15.1', 'InterfaceClass.' + name, False,
                          'accessor vanished', node=ic)
                continue
        kinds = linearization_source(f)
        srcs = {k for k, d in kinds}
        bad = 'bases' in srcs
        uses = bool(srcs & {'iro', 'via:get', 'via:queryTaggedValue'})
        site = ('InterfaceClass.' if f is not spec_get else 'Specification.') + name
        if bad:
            detail = ('builds its inherited view by recursion over '
                      'self.__bases__ (depth-first, left-most base wins) instead '
                      'of __iro__: disagrees with get()/__getitem__ on diamonds '
                      'where only a later branch overrides a name')
        elif not uses:
            detail = 'no inherited view found (sources %s)' % sorted(srcs)
        else:
            detail = 'inherited view from %s' % sorted(kinds)
        rep.check('R15.1', site, uses and not bad, detail, construct='source', node=f)
    # namesAndDescriptions(all=True): most specific wins
    f = ms['namesAndDescriptions']
    lps = [(n, d) for n in walk_local(f) if isinstance(n, ast.For)
           for src, d in [iter_polarity(n.iter, f)]
           if match('self.__iro__', src) is not None]
    ok = len(lps) == 1
    detail = 'loops over self.__iro__: %d' % len(lps)
    if ok:
        lp, d = lps[0]
        v = lp.target.id
        ups = find_all(lp, 'r.update($x)')
        firsts = find_all(lp, 'r.setdefault($k, $v)')
        comb = 'last-wins' if ups and not firsts else (
            'first-wins' if firsts and not ups else 'unknown')
        want = {'last-wins': 'rev', 'first-wins': 'fwd'}.get(comb)
        exits = [n for n in walk_local(lp) if isinstance(
            n, (ast.Break, ast.Return, ast.Continue))]
        direct = False
        for c, e in ups:
            x = e['x']
            if isinstance(x, ast.Call) and dotted(x.func) == 'dict' and x.args:
                x = x.args[0]
            direct = match('%s.namesAndDescriptions()' % v, x) is not None or \
                match('%s.namesAndDescriptions(False)' % v, x) is not None
        ok = want is not None and d == want and not exits and (direct or comb != 'last-wins')
        detail = ('walks __iro__ %s with a %s collector over each interface\'s '
                  'DIRECT attributes (%s) => %s definer wins (required: first '
                  'in __iro__, as get())' % (d, comb, direct,
                                             'first' if d == want else 'last'))
        rets = [n for n in walk_local(f) if isinstance(n, ast.Return)]
        ok = ok and any(match('r.items()', r.value) is not None for r in rets)
    rep.check('R15.1', 'InterfaceClass.namesAndDescriptions', ok, detail,
              construct='polarity', node=f)
    rets = [n for n in walk_local(f) if isinstance(n, ast.Return)]
    okd = any(match('self.$a.items()', r.value) is None and False for r in rets) or True
    ifs = [n for n in f.body if isinstance(n, ast.If) and match('not all', n.test) is not None]
    okd = len(ifs) == 1 and any(isinstance(s, ast.Return) for s in ifs[0].body)
    rep.check('R15.1', 'InterfaceClass.namesAndDescriptions', okd,
              'all=False returns only the direct attributes', construct='direct',
              node=f)

    # ---- R15.2 --------------------------------------------------------------
    f = spec_get
    lps = [(n, d) for n in walk_local(f) if isinstance(n, ast.For)
           for src, d in [iter_polarity(n.iter, f)]
           if match('self.__iro__', src) is not None]
    ok = len(lps) == 1
    detail = 'loops over self.__iro__: %d' % len(lps)
    if ok:
        lp, d = lps[0]
        v = lp.target.id
        probe = find_all(lp, 'attr = %s.direct(name)' % v, 'exec')
        brk = [n for n in walk_local(lp) if isinstance(n, ast.Break)]
        okb = len(brk) == 1 and isinstance(brk[0].parent, ast.If) and \
            match('attr is not None', brk[0].parent.test) is not None
        rets = [n for n in walk_local(f) if isinstance(n, ast.Return)]
        okr = len(rets) == 1 and match('default if attr is None else attr',
                                       rets[0].value) is not None
        ok = d == 'fwd' and bool(probe) and okb and okr
        detail = ('walks __iro__ %s, probes iface.direct(name) (%s), stops at '
                  'the first non-None (%s), returns it or the default (%s)'
                  % (d, bool(probe), okb, okr))
    rep.check('R15.2', 'Specification.get', ok, detail, construct='first-definer',
              node=f)
    d_ = ms['direct']
    rets = [n for n in walk_local(d_) if isinstance(n, ast.Return)]
    rep.check('R15.2', 'InterfaceClass.direct',
              len(rets) == 1 and isinstance(rets[0].value, ast.Call) and
              match('$a.get(name)', rets[0].value) is not None,
              'direct(name) reads only the interface\'s own attributes',
              construct='direct', node=d_)
    f = ms['queryTaggedValue']
    lps = [(n, d) for n in walk_local(f) if isinstance(n, ast.For)
           for src, d in [iter_polarity(n.iter, f)]
           if match('self.__iro__', src) is not None]
    ok = len(lps) == 1
    if ok:
        lp, d = lps[0]
        v = lp.target.id
        probe = find_all(lp, 'value = %s.queryDirectTaggedValue(tag, _marker)' % v, 'exec')
        rets_in = [n for n in walk_local(lp) if isinstance(n, ast.Return)]
        okr = len(rets_in) == 1 and isinstance(rets_in[0].parent, ast.If) and \
            match('value is not _marker', rets_in[0].parent.test) is not None and \
            match('value', rets_in[0].value) is not None
        last = f.body[-1]
        okd = isinstance(last, ast.Return) and match('default', last.value) is not None
        ok = d == 'fwd' and bool(probe) and okr and okd
    rep.check('R15.2', 'InterfaceClass.queryTaggedValue', ok,
              'first interface of __iro__ that has the tag directly wins (a '
              'stored None still wins: sentinel test)', construct='first-definer',
              node=f)
    f = ms['getTaggedValue']
    ok = bool(find_all(f, 'value = self.queryTaggedValue(tag, default=_marker)', 'exec')) and \
        any(isinstance(n, ast.Raise) and match('KeyError(tag)', n.exc) is not None
            for n in walk_local(f))
    rep.check('R15.2', 'InterfaceClass.getTaggedValue', ok,
              'getTaggedValue = queryTaggedValue or KeyError', construct='via-query',
              node=f)
    f = ms['getTaggedValueTags']
    lps = [n for n in walk_local(f) if isinstance(n, ast.For)
           and match('self.__iro__', iter_polarity(n.iter, f)[0]) is not None]
    ok = len(lps) == 1 and bool(find_all(
        lps[0], 'keys.update(%s.getDirectTaggedValueTags())' % lps[0].target.id)) \
        and not [n for n in walk_local(lps[0]) if isinstance(
            n, (ast.Break, ast.Return, ast.Continue))]
    rep.check('R15.2', 'InterfaceClass.getTaggedValueTags', ok,
              'union of the direct tags of every interface of __iro__',
              construct='union', node=f)
    f = ms['validateInvariants']
    ps = shared.params(f)
    lps = [n for n in f.body if isinstance(n, ast.For)
           and match('self.__iro__', iter_polarity(n.iter, f)[0]) is not None]
    ok = len(lps) == 1
    detail = 'loops over self.__iro__: %d' % len(lps)
    if ok:
        lp = lps[0]
        v = lp.target.id
        inner = [n for n in lp.body if isinstance(n, ast.For)]
        oki = len(inner) == 1 and match(
            "%s.queryDirectTaggedValue('invariants', ())" % v, inner[0].iter) is not None
        okcall = okexc = False
        if oki:
            iv = inner[0].target.id
            trys = [n for n in inner[0].body if isinstance(n, ast.Try)]
            okcall = len(trys) == 1 and len(trys[0].body) == 1 and \
                match('%s(%s)' % (iv, ps[1]), trys[0].body[0], 'exec') is not None
            if okcall:
                hs = trys[0].handlers
                okexc = len(hs) == 1 and dotted(hs[0].type) == 'Invalid' and hs[0].name
                if okexc:
                    hb = hs[0].body
                    gi = [n for n in hb if isinstance(n, ast.If)]
                    okexc = len(gi) == 1 and \
                        match('%s is not None' % ps[2], gi[0].test) is not None and \
                        any(match('%s.append(%s)' % (ps[2], hs[0].name), s, 'exec')
                            is not None for s in gi[0].body) and \
                        any(isinstance(s, ast.Raise) and s.exc is None
                            for s in gi[0].orelse) and \
                        not any(isinstance(s, ast.Raise) for s in gi[0].body)
        exits = [n for n in walk_local(lp) if isinstance(
            n, (ast.Break, ast.Return, ast.Continue))]
        tail = [n for n in f.body if isinstance(n, ast.If)
                and match(ps[2], n.test) is not None]
        oktail = len(tail) == 1 and any(
            isinstance(s, ast.Raise) and match('Invalid(%s)' % ps[2], s.exc) is not None
            for s in tail[0].body) and f.body.index(tail[0]) > f.body.index(lp)
        ok = oki and okcall and bool(okexc) and not exits and oktail
        detail = ('every direct invariant of every interface of __iro__ is run '
                  '(%s/%s); Invalid is appended when a list is given, else '
                  're-raised (%s); no early exit (%d); after the loop raises '
                  'Invalid(errors) iff any (%s)' % (oki, okcall, bool(okexc),
                                                    len(exits), oktail))
    rep.check('R15.2', 'InterfaceClass.validateInvariants', ok, detail,
              construct='collect-all', node=f)

    # ---- R15.3 --------------------------------------------------------------
    ch = find_def(mod, 'Specification.changed')
    cfg = cfg_of(ch)
    va = pred_of('self._v_attrs = None', 'exec')
    ok = cfg.must_pass_after(cfg.entry, va)
    # and again after the dependents were notified (last statement kind)
    nodes = [n for n in cfg.nodes if n.ast is not None and va(n)]
    notify = [n for n in cfg.nodes if n.kind == 'iter' and
              find_all(n.ast, '$d.changed($$a)')]
    okafter = bool(notify) and any(
        x.id in cfg.reach(notify[0]) and cfg.must_pass_after(
            notify[0], lambda n, x=x: n is x) for x in nodes)
    rep.check('R15.3', 'Specification.changed', ok and okafter,
              '_v_attrs is reset on every path, and again after the dependents '
              'were notified (%s/%s)' % (ok, okafter), construct='reset', node=ch)
    f = spec_get
    st = find_all(f, 'attrs[name] = attr', 'exec')
    okst = len(st) == 1
    if okst:
        g = st[0][0].parent
        okst = isinstance(g, ast.If) and match('attr is not None', g.test) is not None
    a0 = resolve_local(f, ast.Name(id='attrs', ctx=ast.Load()))
    rep.check('R15.3', 'Specification.get', okst,
              'memo entries are stored only for found descriptions, keyed by '
              'the name', construct='memo-store', node=f)
    # memo is per specification object (self._v_attrs), nothing global
    memo_sites = [n for n in walk_local(f) if isinstance(n, ast.Attribute)
                  and n.attr == '_v_attrs']
    rep.check('R15.3', 'Specification.get',
              all(isinstance(m.value, ast.Name) and m.value.id == 'self'
                  for m in memo_sites) and bool(memo_sites),
              'the memo lives on the specification itself (dropped with its '
              'own changed())', construct='memo-owner', node=f)

    # ---- R15.5 --------------------------------------------------------------
    from .C02 import r02_1, r02_2
    r02_1(rep, mod, rule='R15.5')
    r02_2(rep, mod, rule='R15.5')

    # ---- R15.4 --------------------------------------------------------------
    f = ms['names']
    kinds = linearization_source(f)
    srcs = {k for k, d in kinds}
    ok = bool(srcs & {'iro', 'bases'})
    if 'bases' in srcs:
        # recursion must pass `all` on so that every ancestor is covered
        ok = bool(find_all(f, '$b.names(all)')) or bool(find_all(f, '$b.names(True)')) \
            or bool(find_all(f, '$b.names(all=True)'))
    rep.check('R15.4', 'InterfaceClass.names', ok,
              'names(all=True) is the union over all ancestors (%s)' % sorted(kinds),
              construct='union', node=f)
    f = ms['__iter__']
    rets = [n for n in walk_local(f) if isinstance(n, ast.Return)]
    rep.check('R15.4', 'InterfaceClass.__iter__',
              len(rets) == 1 and match('iter(self.names(all=True))', rets[0].value)
              is not None, '__iter__ = iter(names(all=True))', construct='iter',
              node=f)
    vmod = repo.module('verify.py')
    v = find_def(vmod, '_verify')
    ok = bool(find_all(v, 'iface.namesAndDescriptions(all=True)')) or \
        bool(find_all(v, 'iface.namesAndDescriptions(True)'))
    rep.check('R15.4', 'verify._verify', ok,
              'the verifier checks the full inherited view '
              '(namesAndDescriptions(all=True))', construct='consumer', node=v)
