"""C15 - attribute, tagged-value and invariant resolution all follow the
resolution order."""
import ast

from ..core import AnalysisError, norm_src
from ..pyfront import (find_def, find_all, match, walk_local, dotted, same,
                       calls_in, names_in, methods_of, class_attr_assign)
from ..flowq import (iter_polarity, resolve_local, loops_over, pred_of,
                     witness_path, nodes_with, any_pred)
from ..cfg import cfg_of, header_expr
from . import shared

VALUE_SELECTING = ('get', 'getDescriptionFor', '__getitem__',
                   'queryDescriptionFor', '__contains__',
                   'namesAndDescriptions', 'queryTaggedValue',
                   'getTaggedValue', 'validateInvariants')
SET_VALUED = ('names', '__iter__', 'getTaggedValueTags')


def linearization_source(func):
    """How a method obtains its inherited view:
    'iro' (loop over self.__iro__), 'bases' (recursion over self.__bases__),
    'get' (delegates to self.get / another accessor), 'direct' (own attrs)."""
    kinds = set()
    for n in walk_local(func):
        it = None
        if isinstance(n, (ast.For, ast.comprehension)):
            it = n.iter
        if it is not None:
            src, d = iter_polarity(it, func)
            if match('self.__iro__', src) is not None:
                kinds.add(('iro', d))
            elif match('self.__bases__', src) is not None:
                kinds.add(('bases', d))
            elif match('self.__sro__', src) is not None:
                kinds.add(('sro', d))
    for c in walk_local(func):
        if isinstance(c, ast.Call) and isinstance(c.func, ast.Attribute) and \
                isinstance(c.func.value, ast.Name) and c.func.value.id == 'self' \
                and c.func.attr in ('get', 'queryTaggedValue', 'names',
                                    'namesAndDescriptions'):
            kinds.add(('via:' + c.func.attr, ''))
    return kinds


def run(rep):
    repo = rep.repo
    mod = repo.module('interface.py')
    rep.rule('R15.1', 'every value-selecting accessor of InterfaceClass '
             'resolves its inherited view through __iro__ (directly or via '
             'get()), with the first definer winning; none walks __bases__ '
             '(an independent depth-first linearization)', floor=9)
    rep.rule('R15.2', 'polarity: Specification.get walks __iro__ forward and '
             'stops at the first direct definition; queryTaggedValue likewise '
             'with a sentinel; getTaggedValueTags is the union over __iro__; '
             'validateInvariants runs every invariant of every interface of '
             '__iro__ and collects all failures when given a list', floor=6)
    rep.rule('R15.3', 'the attribute memo _v_attrs is the only memo on this '
             'path, is dropped by Specification.changed on every path, and '
             'only stores found descriptions', floor=2)
    rep.rule('R15.4', 'set-valued accessors (names(all), __iter__) cover every '
             'ancestor; consumers (verify, document) take the inherited view '
             'from namesAndDescriptions(all=True)', floor=3)
    rep.rule('R15.5', 'the accessors follow later __bases__ changes: '
             'Specification.changed recomputes __iro__ on every path and '
             'notifies every dependent unconditionally, and the __bases__ setter '
             'makes the specification a dependent of exactly its new bases (same '
             'obligations as C02 R02.1/R02.2/R02.3)', floor=10)
    rep.decline('none - relative to C02/C03 (what __iro__ is and that it '
                'follows __bases__ changes)')

    ic = find_def(mod, 'InterfaceClass')
    ms = methods_of(ic)
    spec_get = find_def(mod, 'Specification.get')

    # ---- R15.1 --------------------------------------------------------------
    for name in VALUE_SELECTING:
        f = ms.get(name)
        if f is None:
            v = class_attr_assign(ic, name)
            if v is not None and isinstance(v, ast.Name) and v.id in ms:
                rep.check('R15.1', 'InterfaceClass.' + name, True,
                          'alias of %s' % v.id, construct='alias', node=ic)
                continue
            if name == 'get':
                f = spec_get
            else:
                rep.check('R15.1', 'InterfaceClass.' + name, False,
                          'accessor vanished', node=ic)
                continue
        kinds = linearization_source(f)
        srcs = {k for k, d in kinds}
        bad = 'bases' in srcs
        uses = bool(srcs & {'iro', 'via:get', 'via:queryTaggedValue'})
        site = ('InterfaceClass.' if f is not spec_get else 'Specification.') + name
        if bad:
            detail = ('builds its inherited view by recursion over '
                      'self.__bases__ (depth-first, left-most base wins) instead '
                      'of __iro__: disagrees with get()/__getitem__ on diamonds '
                      'where only a later branch overrides a name')
        elif not uses:
            detail = 'no inherited view found (sources %s)' % sorted(srcs)
        else:
            detail = 'inherited view from %s' % sorted(kinds)
        rep.check('R15.1', site, uses and not bad, detail, construct='source', node=f)
    from . import specsem
    specsem.names_and_descriptions(rep, mod, 'R15.1')

    # ---- R15.2 --------------------------------------------------------------
    specsem.spec_get(rep, mod, 'R15.2', 'R15.3')
    d_ = ms['direct']
    rets = [n for n in walk_local(d_) if isinstance(n, ast.Return)]
    rep.check('R15.2', 'InterfaceClass.direct',
              len(rets) == 1 and isinstance(rets[0].value, ast.Call) and
              match('$a.get(name)', rets[0].value) is not None,
              'direct(name) reads only the interface\'s own attributes',
              construct='direct', node=d_)
    specsem.query_tagged_value(rep, mod, 'R15.2')
    specsem.tagged_value_tags(rep, mod, 'R15.2')
    specsem.validate_invariants(rep, mod, 'R15.2')

    # ---- R15.3 --------------------------------------------------------------
    ch = find_def(mod, 'Specification.changed')
    cfg = cfg_of(ch)
    va = pred_of('self._v_attrs = None', 'exec')
    ok = cfg.must_pass_after(cfg.entry, va)
    # and again after the dependents were notified (last statement kind)
    nodes = [n for n in cfg.nodes if n.ast is not None and va(n)]
    notify = [n for n in cfg.nodes if n.kind == 'iter' and
              find_all(n.ast, '$d.changed($$a)')]
    okafter = bool(notify) and any(
        x.id in cfg.reach(notify[0]) and cfg.must_pass_after(
            notify[0], lambda n, x=x: n is x) for x in nodes)
    rep.check('R15.3', 'Specification.changed', ok and okafter,
              '_v_attrs is reset on every path, and again after the dependents '
              'were notified (%s/%s)' % (ok, okafter), construct='reset', node=ch)
    # ---- R15.5 --------------------------------------------------------------
    from . import specsem
    specsem.changed_recompute(rep, mod, 'R15.5')
    specsem.changed_notify(rep, mod, 'R15.5')
    # ... which presupposes that the interface IS a dependent of its current
    # bases: the __bases__ store protocol (C02 R02.3) and the counting
    from .C02 import r02_3
    r02_3(rep, mod, 'R15.5')
    specsem.subscription_counting(rep, mod, 'R15.5')

    # ---- R15.4 --------------------------------------------------------------
    f = ms['names']
    kinds = linearization_source(f)
    srcs = {k for k, d in kinds}
    ok = bool(srcs & {'iro', 'bases'})
    if 'bases' in srcs:
        # recursion must pass `all` on so that every ancestor is covered
        ok = bool(find_all(f, '$b.names(all)')) or bool(find_all(f, '$b.names(True)')) \
            or bool(find_all(f, '$b.names(all=True)'))
    # ... and the walk over the ancestors visits all of them: no exit from inside it
    early = [lp for lp in walk_local(f) if isinstance(lp, (ast.For, ast.While)) and
             [n for n in ast.walk(lp) if isinstance(n, (ast.Break, ast.Return))]]
    if early:
        ok = False
    rep.check('R15.4', 'InterfaceClass.names', ok,
              'names(all=True) is the union over all ancestors (%s)' % sorted(kinds)
              if not early else 'the walk over the ancestors can end early (break/return '
              'inside the loop): names of later bases are missing',
              construct='union', node=f)
    f = ms['__iter__']
    rets = [n for n in walk_local(f) if isinstance(n, ast.Return)]
    rep.check('R15.4', 'InterfaceClass.__iter__',
              len(rets) == 1 and match('iter(self.names(all=True))', rets[0].value)
              is not None, '__iter__ = iter(names(all=True))', construct='iter',
              node=f)
    vmod = repo.module('verify.py')
    v = find_def(vmod, '_verify')
    ok = bool(find_all(v, 'iface.namesAndDescriptions(all=True)')) or \
        bool(find_all(v, 'iface.namesAndDescriptions(True)'))
    rep.check('R15.4', 'verify._verify', ok,
              'the verifier checks the full inherited view '
              '(namesAndDescriptions(all=True))', construct='consumer', node=v)
