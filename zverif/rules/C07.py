"""C07 - subscriptions() returns every applicable subscriber, with
multiplicity, in order."""
import ast

from ..core import AnalysisError, norm_src
from ..pyfront import (find_def, find_all, match, walk_local, dotted, same,
                       calls_in, names_in, ClassTable)
from ..flowq import (iter_polarity, resolve_local, loops_over, pred_of,
                     witness_path, nodes_with, reaching_defs, def_value)
from ..cfg import cfg_of, header_expr
from . import shared


def path_table(func):
    """[(conditions, returned expr text)] for small loop-free functions."""
    out = []
    for path in cfg_of(func).paths():
        conds = tuple((norm_src(n.ast), lab) for n, lab in path
                      if n.kind == 'test')
        ret = [n.ast for n, lab in path if isinstance(n.ast, ast.Return)]
        out.append((conds, norm_src(ret[0].value) if ret else None))
    return out


def extendor_transitions(rep, rule, mod, fname, kind):
    """add_extendor exactly under n == 1 after n = get(provided, 0) + 1;
    remove_extendor exactly under n == 0."""
    f = find_def(mod, 'BaseAdapterRegistry.' + fname)
    site = 'BaseAdapterRegistry.' + fname
    if kind == 'add':
        calls = find_all(f, 'self._v_lookup.add_extendor(provided)')
        ok = len(calls) == 1
        detail = 'add_extendor calls: %d' % len(calls)
        if ok:
            c = calls[0][0]
            g = shared.stmt_of(c).parent
            ok = isinstance(g, ast.If) and shared.stmt_of(c) in g.body and \
                match('$n == 1', g.test) is not None
            detail = 'add_extendor guarded by `%s`' % (
                norm_src(g.test) if isinstance(g, ast.If) else 'nothing')
            if ok:
                n = match('$n == 1', g.test)['n']
                cfg = cfg_of(f)
                defs = reaching_defs(cfg, cfg.node_of(g.test), n.id)
                vals = [def_value(d) for d in defs if d is not cfg.entry]
                okn = len(vals) == 1 and vals[0] is not None and \
                    match('self._provided.get(provided, 0) + 1', vals[0]) is not None
                stored = find_all(f, 'self._provided[provided] = %s' % n.id, 'exec')
                ok = okn and len(stored) == 1
                detail = ('n = %s; stored back: %d; add_extendor iff n == 1'
                          % ([norm_src(v) for v in vals], len(stored)))
        rep.check(rule, site, ok, detail, construct='add_extendor', node=f)
    else:
        calls = find_all(f, 'self._v_lookup.remove_extendor(provided)')
        ok = len(calls) == 1
        detail = 'remove_extendor calls: %d' % len(calls)
        if ok:
            c = calls[0][0]
            g = shared.stmt_of(c).parent
            ok = isinstance(g, ast.If) and shared.stmt_of(c) in g.body and \
                match('$n == 0', g.test) is not None
            detail = 'remove_extendor guarded by `%s`' % (
                norm_src(g.test) if isinstance(g, ast.If) else 'nothing')
            if ok:
                n = match('$n == 0', g.test)['n']
                dels = find_all(g, 'del self._provided[provided]', 'exec')
                okd = any(d in g.body for d, _ in dels)
                st = find_all(g, 'self._provided[provided] = %s' % n.id, 'exec')
                oks = any(s in g.orelse for s, _ in st)
                cfg = cfg_of(f)
                defs = reaching_defs(cfg, cfg.node_of(g.test), n.id)
                vals = [def_value(d) for d in defs if d is not cfg.entry]
                if fname == 'unregister':
                    want = ['self._provided[provided] - 1']
                else:
                    want = ['self._provided[provided] + len(new) - len_old',
                            'self._provided[provided] - (len_old - len(new))',
                            'self._provided[provided] - len_old + len(new)']
                okn = len(vals) == 1 and vals[0] is not None and any(
                    match(w, vals[0]) is not None for w in want)
                ok = okd and oks and okn
                detail = ('n = %s (required %s); n == 0 -> delete count + '
                          'remove_extendor (%s), else store n (%s)'
                          % ([norm_src(v) for v in vals], want[0], okd, oks))
        rep.check(rule, site, ok, detail, construct='remove_extendor', node=f)


def run(rep):
    repo = rep.repo
    mod = repo.module('adapter.py')
    table = ClassTable(repo, ['adapter.py'])
    rep.rule('R07.1', 'polarity: _subscriptions walks specs[i].__sro__ and the '
             'extendors in reverse, visits everything, extends the result with '
             'the leaf of the exact name; _uncached_subscriptions walks '
             'registry.ro in reverse (base registries first) over _subscribers',
             floor=12)
    rep.rule('R07.2', 'leaf discipline: _addValueToLeaf appends at the end '
             '(None -> 1-tuple); _removeValueFromLeaf keeps, in order, exactly '
             'the items != to_remove (equality, all occurrences)', floor=2)
    rep.rule('R07.3', 'unsubscribe scope: value None -> (), else '
             '_removeValueFromLeaf(old, value); no write before the '
             'nothing-removed early return; only the exact leaf, emptied '
             'ancestors and the provided count are written', floor=6)
    rep.rule('R07.4', 'handler path: provided None -> extendors (None,); '
             'extendor count only touched when provided is not None', floor=3)
    rep.rule('R07.5', 'extendor transitions: add_extendor exactly when the '
             'count becomes 1, remove_extendor exactly when it becomes 0; '
             'unsubscribe adjusts by len(new) - len_old', floor=4)
    rep.rule('R07.6', 'subscribe/unsubscribe invalidate: every storage write '
             'is followed by self.changed() on every normal path (cached '
             'subscriptions() answers are dropped)', floor=4)
    rep.rule('R07.7', 'extendor index: add_extendor/remove_extendor keep the '
             'index exact (shared with C04 R04.3)', floor=2)
    rep.decline('equality of the returned multiset with the net effect of an '
                'arbitrary subscribe/unsubscribe history')
    rep.assume('resolution orders are those of C02/C03')

    # R07.1
    from . import sem
    f = find_def(mod, '_subscriptions')
    sem.check_walkers(rep, 'R07.1', f, 'extend')
    us = find_def(mod, 'AdapterLookupBase._uncached_subscriptions')
    sem.registry_walk_spec(rep, 'R07.1', us, '_subscriptions', '_subscribers', 'rev',
                           False, ["''", '[]', '0', 'len(required)'], '[]')
    # R07.2
    f = find_def(mod, 'BaseAdapterRegistry._addValueToLeaf')
    ps = shared.params(f)
    ex, new = ps[1], ps[2]
    t = set(path_table(f))
    want1 = {((('%s is None' % ex, 'T'),), '(%s,)' % new),
             ((('%s is None' % ex, 'F'),), '%s + (%s,)' % (ex, new))}
    want2 = {((('%s is not None' % ex, 'F'),), '(%s,)' % new),
             ((('%s is not None' % ex, 'T'),), '%s + (%s,)' % (ex, new))}
    rep.check('R07.2', 'BaseAdapterRegistry._addValueToLeaf', t in (want1, want2),
              'decision table %s' % sorted(map(str, t)), node=f)
    f = find_def(mod, 'BaseAdapterRegistry._removeValueFromLeaf')
    ps = shared.params(f)
    ex, rm = ps[1], ps[2]
    rets = [n for n in walk_local(f) if isinstance(n, ast.Return)]
    ok = len(rets) == 1
    if ok:
        v = rets[0].value
        if isinstance(v, ast.Call) and isinstance(v.func, ast.Name) and \
                v.func.id == 'tuple' and len(v.args) == 1:
            v = v.args[0]
        ok = match('[$v for $v in %s if $v != %s]' % (ex, rm), v) is not None or \
            match('($v for $v in %s if $v != %s)' % (ex, rm), v) is not None or \
            match('[$v for $v in %s if not $v == %s]' % (ex, rm), v) is not None
    rep.check('R07.2', 'BaseAdapterRegistry._removeValueFromLeaf', ok,
              'returns %s' % [norm_src(r.value) for r in rets], node=f)

    # R07.3 unsubscribe
    from . import mutators
    mutators.unsubscribe_new(rep, 'R07.3', mod)
    mutators.descent(rep, 'R07.3', mod, 'unsubscribe', '_subscribers')
    mutators.descent(rep, 'R07.3', mod, 'subscribe', '_subscribers')

    # R07.4 handler path
    f = us
    ifs = [n for n in walk_local(f) if isinstance(n, ast.If)
           and (match('provided is None', n.test) is not None
                or match('provided is not None', n.test) is not None)]
    ok = len(ifs) == 1
    if ok:
        i = ifs[0]
        nb = i.body if match('provided is None', i.test) is not None else i.orelse
        ok = any(match('extendors = (provided,)', s, 'exec') is not None or
                 match('extendors = (None,)', s, 'exec') is not None for s in nb)
    rep.check('R07.4', 'AdapterLookupBase._uncached_subscriptions', ok,
              'provided is None -> extendors = (None,) (handlers are stored '
              'under the key None)', construct='handler-extendors', node=f)
    for fname in ('subscribe', 'unsubscribe'):
        f = find_def(mod, 'BaseAdapterRegistry.' + fname)
        touches = [n for n in walk_local(f)
                   if isinstance(n, ast.Attribute) and n.attr == '_provided']
        ok = bool(touches)
        for t in touches:
            p = t
            guarded = False
            while p is not f:
                if isinstance(p.parent, ast.If) and \
                        match('provided is not None', p.parent.test) is not None \
                        and shared.stmt_of(t) in list(walk_body(p.parent.body)):
                    guarded = True
                p = p.parent
            ok = ok and guarded
        rep.check('R07.4', 'BaseAdapterRegistry.' + fname, ok,
                  'the provided count / extendor index is touched only under '
                  '`provided is not None`', construct='count-guard', node=f)

    # R07.5
    mutators.extendor_transitions(rep, 'R07.5', mod, 'register', 'add')
    mutators.extendor_transitions(rep, 'R07.5', mod, 'subscribe', 'add')
    mutators.extendor_transitions(rep, 'R07.5', mod, 'unregister', 'remove')
    mutators.extendor_transitions(rep, 'R07.5', mod, 'unsubscribe', 'remove')

    # R07.6 invalidation of subscribe/unsubscribe
    from .C05 import inv1
    inv1(rep, mod, table, rule='R07.6', only=('subscribe', 'unsubscribe'), floor=2)

    # R07.7 extendor index (same obligations as R04.3)
    from .C04 import run as _  # noqa
    shared.extendor_index(rep, 'R07.7', mod)


def walk_body(stmts):
    for s in stmts:
        for n in ast.walk(s):
            if isinstance(n, ast.stmt):
                yield n
