"""C07 - subscriptions() returns every applicable subscriber, with
multiplicity, in order."""
import ast

from ..core import AnalysisError, norm_src
from ..pyfront import (find_def, find_all, match, walk_local, dotted, same,
                       calls_in, names_in, ClassTable)
from ..flowq import (iter_polarity, resolve_local, loops_over, pred_of,
                     witness_path, nodes_with, reaching_defs, def_value)
from ..cfg import cfg_of, header_expr
from . import shared


def path_table(func):
    """[(conditions, returned expr text)] for small loop-free functions."""
    out = []
    for path in cfg_of(func).paths():
        conds = tuple((norm_src(n.ast), lab) for n, lab in path
                      if n.kind == 'test')
        ret = [n.ast for n, lab in path if isinstance(n.ast, ast.Return)]
        out.append((conds, norm_src(ret[0].value) if ret else None))
    return out


def extendor_transitions(rep, rule, mod, fname, kind):
    """add_extendor exactly under n == 1 after n = get(provided, 0) + 1;
    remove_extendor exactly under n == 0."""
    f = find_def(mod, 'BaseAdapterRegistry.' + fname)
    site = 'BaseAdapterRegistry.' + fname
    if kind == 'add':
        calls = find_all(f, 'self._v_lookup.add_extendor(provided)')
        ok = len(calls) == 1
        detail = 'add_extendor calls: %d' % len(calls)
        if ok:
            c = calls[0][0]
            g = shared.stmt_of(c).parent
            ok = isinstance(g, ast.If) and shared.stmt_of(c) in g.body and \
                match('$n == 1', g.test) is not None
            detail = 'add_extendor guarded by `%s`' % (
                norm_src(g.test) if isinstance(g, ast.If) else 'nothing')
            if ok:
                n = match('$n == 1', g.test)['n']
                cfg = cfg_of(f)
                defs = reaching_defs(cfg, cfg.node_of(g.test), n.id)
                vals = [def_value(d) for d in defs if d is not cfg.entry]
                okn = len(vals) == 1 and vals[0] is not None and \
                    match('self._provided.get(provided, 0) + 1', vals[0]) is not None
                stored = find_all(f, 'self._provided[provided] = %s' % n.id, 'exec')
                ok = okn and len(stored) == 1
                detail = ('n = %s; stored back: %d; add_extendor iff n == 1'
                          % ([norm_src(v) for v in vals], len(stored)))
        rep.check(rule, site, ok, detail, construct='add_extendor', node=f)
    else:
        calls = find_all(f, 'self._v_lookup.remove_extendor(provided)')
        ok = len(calls) == 1
        detail = 'remove_extendor calls: %d' % len(calls)
        if ok:
            c = calls[0][0]
            g = shared.stmt_of(c).parent
            ok = isinstance(g, ast.If) and shared.stmt_of(c) in g.body and \
                match('$n == 0', g.test) is not None
            detail = 'remove_extendor guarded by `%s`' % (
                norm_src(g.test) if isinstance(g, ast.If) else 'nothing')
            if ok:
                n = match('$n == 0', g.test)['n']
                dels = find_all(g, 'del self._provided[provided]', 'exec')
                okd = any(d in g.body for d, _ in dels)
                st = find_all(g, 'self._provided[provided] = %s' % n.id, 'exec')
                oks = any(s in g.orelse for s, _ in st)
                cfg = cfg_of(f)
                defs = reaching_defs(cfg, cfg.node_of(g.test), n.id)
                vals = [def_value(d) for d in defs if d is not cfg.entry]
                if fname == 'unregister':
                    want = ['self._provided[provided] - 1']
                else:
                    want = ['self._provided[provided] + len(new) - len_old',
                            'self._provided[provided] - (len_old - len(new))',
                            'self._provided[provided] - len_old + len(new)']
                okn = len(vals) == 1 and vals[0] is not None and any(
                    match(w, vals[0]) is not None for w in want)
                ok = okd and oks and okn
                detail = ('n = %s (required %s); n == 0 -> delete count + '
                          'remove_extendor (%s), else store n (%s)'
                          % ([norm_src(v) for v in vals], want[0], okd, oks))
        rep.check(rule, site, ok, detail, construct='remove_extendor', node=f)


def run(rep):
    repo = rep.repo
    mod = repo.module('adapter.py')
    table = ClassTable(repo, ['adapter.py'])
    rep.rule('R07.1', 'polarity: _subscriptions walks specs[i].__sro__ and the '
             'extendors in reverse, visits everything, extends the result with '
             'the leaf of the exact name; _uncached_subscriptions walks '
             'registry.ro in reverse (base registries first) over _subscribers',
             floor=10)
    rep.rule('R07.2', 'leaf discipline: _addValueToLeaf appends at the end '
             '(None -> 1-tuple); _removeValueFromLeaf keeps, in order, exactly '
             'the items != to_remove (equality, all occurrences)', floor=2)
    rep.rule('R07.3', 'unsubscribe scope: value None -> (), else '
             '_removeValueFromLeaf(old, value); no write before the '
             'nothing-removed early return; only the exact leaf, emptied '
             'ancestors and the provided count are written', floor=6)
    rep.rule('R07.4', 'handler path: provided None -> extendors (None,); '
             'extendor count only touched when provided is not None', floor=3)
    rep.rule('R07.5', 'extendor transitions: add_extendor exactly when the '
             'count becomes 1, remove_extendor exactly when it becomes 0; '
             'unsubscribe adjusts by len(new) - len_old', floor=4)
    rep.rule('R07.6', 'subscribe/unsubscribe invalidate: every storage write '
             'is followed by self.changed() on every normal path (cached '
             'subscriptions() answers are dropped)', floor=4)
    rep.rule('R07.7', 'extendor index: add_extendor/remove_extendor keep the '
             'index exact (shared with C04 R04.3)', floor=2)
    rep.rule('R07.8', 'subscriptions() memo (PY and C): probes '
             '_scache[provided][tuple(required)]; a hit returns the stored '
             'value; a miss stores exactly the fresh _uncached_subscriptions '
             'result, in the dictionary fetched BEFORE that call (an answer '
             'computed before a re-entrant changed() never lands in the live '
             'cache, so a later unsubscribe is not masked)', floor=2)
    rep.rule('R07.9', 'cached subscriptions() answers follow declaration changes: '
             '_uncached_subscriptions subscribes to the complete required tuple on '
             'every exit and _subscribe subscribes to EVERY required specification '
             'not yet recorded (shared with C05 INV-4)', floor=2)
    rep.decline('equality of the returned multiset with the net effect of an '
                'arbitrary subscribe/unsubscribe history')
    rep.assume('resolution orders are those of C02/C03')

    # R07.1
    from . import sem
    f = find_def(mod, '_subscriptions')
    sem.check_walkers(rep, 'R07.1', f, 'extend')
    us = find_def(mod, 'AdapterLookupBase._uncached_subscriptions')
    sem.registry_walk_spec(rep, 'R07.1', us, '_subscriptions', '_subscribers', 'rev',
                           False, ["''", '[]', '0', 'len(required)'], '[]')
    # R07.2 (over path summaries)
    from ..sympath import summaries as _S, normal as _N
    from .sem import nt as _nt
    from .rosem import comp_shape
    f = find_def(mod, 'BaseAdapterRegistry._addValueToLeaf')
    ps_ = shared.params(f)
    ex, new = ps_[1], ps_[2]
    probs = []
    seen = set()
    for ps in _N(_S(f)):
        n_ = ps.facts.get('%s is None' % ex)
        seen.add(n_)
        r = _nt(ps.ret)
        if n_ is True and r != '(%s,)' % new:
            probs.append('no leaf yet: returns `%s`' % r[:50])
        elif n_ is False and r not in ('%s + (%s,)' % (ex, new), '(*%s, %s)' % (ex, new)):
            probs.append('existing leaf: returns `%s` (required: appended at the end)'
                         % r[:50])
        elif n_ is None:
            probs.append('existing leaf not tested for None')
    if seen != {True, False}:
        probs.append('cases seen %s' % sorted(seen, key=str))
    rep.check('R07.2', 'BaseAdapterRegistry._addValueToLeaf', not probs,
              'None -> (new,); otherwise existing + (new,) (appended last)'
              if not probs else {'problems': sorted(set(probs))[:3]}, node=f)
    f = find_def(mod, 'BaseAdapterRegistry._removeValueFromLeaf')
    ps_ = shared.params(f)
    ex, rm = ps_[1], ps_[2]
    rets = [ps.ret for ps in _N(_S(f))]
    ok = bool(rets)
    for v in rets:
        if isinstance(v, ast.Call) and dotted(v.func) == 'tuple' and len(v.args) == 1:
            v = v.args[0]
        sh = comp_shape(v)
        ok = ok and sh is not None and sh[0] == '$' and sh[1] == ex and sh[2] == 'fwd' \
            and sh[3] in (['$ != %s' % rm], ['not $ == %s' % rm])
    rep.check('R07.2', 'BaseAdapterRegistry._removeValueFromLeaf', ok,
              'keeps, in order, exactly the items != to_remove: %s'
              % [_nt(r)[:70] for r in rets], node=f)

    # R07.3 unsubscribe
    from . import mutators
    mutators.unsubscribe_new(rep, 'R07.3', mod)
    mutators.descent(rep, 'R07.3', mod, 'unsubscribe', '_subscribers')
    mutators.descent(rep, 'R07.3', mod, 'subscribe', '_subscribers')

    # R07.4 handler path (over path summaries)
    f = us
    probs = []
    seen = set()
    for ps in _N(_S(f)):
        calls = [e for e in ps.events if e.kind == 'call' and
                 dotted(e.r.func) == '_subscriptions']
        pn = ps.facts.get('provided is None')
        for e in calls:
            x = _nt(e.r.args[2]) if len(e.r.args) > 2 else '?'
            seen.add(pn)
            if pn is True and x not in ('(None,)', '(provided,)'):
                probs.append('handlers: extendors `%s` (required (None,))' % x[:50])
            elif pn is False and '_extendors.get(provided)' not in x:
                probs.append('adapters: extendors `%s`' % x[:60])
            elif pn is None:
                probs.append('provided is not tested for None')
    if seen != {True, False}:
        probs.append('cases seen %s' % sorted(seen, key=str))
    rep.check('R07.4', 'AdapterLookupBase._uncached_subscriptions', not probs,
              'provided is None -> extendors = (None,) (handlers are stored '
              'under the key None)' if not probs else {'problems': sorted(set(probs))[:3]},
              construct='handler-extendors', node=f)
    for fname in ('subscribe', 'unsubscribe'):
        f = find_def(mod, 'BaseAdapterRegistry.' + fname)
        probs = []
        n = 0
        for ps in _N(_S(f)):
            touch = [e for e in ps.events if '_provided' in repr(e) or
                     'extendor(' in repr(e)]
            if touch:
                n += 1
                if ps.facts.get('provided is None') is not False:
                    probs.append('the count is touched although provided may be None')
        rep.check('R07.4', 'BaseAdapterRegistry.' + fname, n > 0 and not probs,
                  'the provided count / extendor index is touched only under '
                  '`provided is not None`', construct='count-guard', node=f)

    # R07.5
    mutators.extendor_transitions(rep, 'R07.5', mod, 'register', 'add')
    mutators.extendor_transitions(rep, 'R07.5', mod, 'subscribe', 'add')
    mutators.extendor_transitions(rep, 'R07.5', mod, 'unregister', 'remove')
    mutators.extendor_transitions(rep, 'R07.5', mod, 'unsubscribe', 'remove')

    # R07.6 invalidation of subscribe/unsubscribe
    from .C05 import inv1
    inv1(rep, mod, table, rule='R07.6', only=('subscribe', 'unsubscribe'), floor=2)

    # R07.7 extendor index (same obligations as R04.3)
    from .C04 import run as _  # noqa
    shared.extendor_index(rep, 'R07.7', mod)

    # R07.8 memo protocol of subscriptions()
    from . import sem as _sem2, cside, csem
    _sem2.cached_lookup_spec(rep, 'R07.8', find_def(mod, 'LookupBase.subscriptions'),
                             'LookupBase.subscriptions', '_uncached_subscriptions',
                             '_scache', 'tuple', False, ['required', 'provided'])
    cside.fills(rep, cside.cu(rep), 'R07.8', only=('_subscriptions',))

    # R07.9 specification edge of subscriptions()
    from .C05 import subscribe_on_all_exits, subscribe_all_spec
    subscribe_on_all_exits(rep, mod, 'R07.9', only=('_uncached_subscriptions',))
    subscribe_all_spec(rep, mod, 'R07.9')
    cside.verify_snapshot_c(rep, cside.cu(rep), 'R07.9')


def walk_body(stmts):
    for s in stmts:
        for n in ast.walk(s):
            if isinstance(n, ast.stmt):
                yield n
