"""C20 - declaration algebra: iteration, membership, + and - obey
ordered-set laws."""
import ast

from ..core import AnalysisError, norm_src
from ..pyfront import (find_def, find_all, match, walk_local, dotted, same,
                       calls_in, names_in, methods_of, class_attr_assign)
from ..flowq import (iter_polarity, resolve_local, loops_over, pred_of,
                     witness_path, nodes_with, any_pred)
from ..cfg import cfg_of, header_expr
from . import shared


def falsy_const(e):
    return isinstance(e, ast.Constant) and e.value in (0, False) and \
        e.value is not None


def exists_filter(cond, outer_var):
    """`cond` is "no j in other.interfaces() with outer.extends(j, non-strict)"
    Returns (ok, detail)."""
    neg = None
    inner = None
    if isinstance(cond, ast.UnaryOp) and isinstance(cond.op, ast.Not):
        neg = cond.operand
    else:
        return False, 'filter `%s` is not a negated existence test' % norm_src(cond)
    gen = None
    if isinstance(neg, (ast.ListComp, ast.GeneratorExp)):
        gen = neg
    elif isinstance(neg, ast.Call) and isinstance(neg.func, ast.Name) and \
            neg.func.id == 'any' and len(neg.args) == 1 and \
            isinstance(neg.args[0], (ast.ListComp, ast.GeneratorExp)):
        gen = neg.args[0]
    if gen is None or len(gen.generators) != 1:
        return False, 'filter `%s` is not an existence test over other.interfaces()' \
            % norm_src(cond)
    g = gen.generators[0]
    if match('other.interfaces()', g.iter) is None:
        return False, 'inner iteration over `%s` (required other.interfaces())' \
            % norm_src(g.iter)
    j = g.target.id if isinstance(g.target, ast.Name) else None
    tests = list(g.ifs)
    if isinstance(neg, ast.Call) or not tests:
        tests = tests + [gen.elt]
    tests = [t for t in tests if not (isinstance(t, ast.Name) and t.id == j)]
    if len(tests) != 1:
        return False, 'unexpected predicate structure `%s`' % norm_src(gen)
    t = tests[0]
    if not (isinstance(t, ast.Call) and isinstance(t.func, ast.Attribute)
            and t.func.attr == 'extends'):
        return False, 'predicate `%s` is not an extends() test' % norm_src(t)
    recv = t.func.value
    arg = t.args[0] if t.args else None
    strict = None
    if len(t.args) >= 2:
        strict = t.args[1]
    for kw in t.keywords:
        if kw.arg == 'strict':
            strict = kw.value
    okdir = isinstance(recv, ast.Name) and recv.id == outer_var and \
        isinstance(arg, ast.Name) and arg.id == j
    okstrict = strict is not None and falsy_const(strict)
    if not okdir:
        return False, ('predicate `%s`: receiver must be the interface of self '
                       'and the argument the interface of other (i extends j)'
                       % norm_src(t))
    if not okstrict:
        return False, 'predicate `%s` must be non-strict (an interface extends ' \
            'itself)' % norm_src(t)
    return True, 'keeps i iff no j in other.interfaces() with i.extends(j, strict=False)'


def purity(rep, rule, func, site):
    bad = []
    for n in walk_local(func):
        if isinstance(n, (ast.Assign, ast.AugAssign, ast.Delete)):
            tgts = n.targets if isinstance(n, (ast.Assign, ast.Delete)) else [n.target]
            for t in tgts:
                if isinstance(t, (ast.Attribute, ast.Subscript)):
                    base = t.value
                    while isinstance(base, (ast.Attribute, ast.Subscript)):
                        base = base.value
                    if isinstance(base, ast.Name) and base.id in ('self', 'other', 'interface'):
                        bad.append(norm_src(n))
        if isinstance(n, ast.Call) and isinstance(n.func, ast.Attribute) and \
                n.func.attr in ('changed', 'subscribe', 'unsubscribe', 'append',
                                'remove', 'extend', 'insert', 'pop', 'clear',
                                'update', 'sort', 'reverse', 'add', 'discard'):
            base = n.func.value
            root = base
            while isinstance(root, (ast.Attribute, ast.Subscript, ast.Call)):
                root = root.value if not isinstance(root, ast.Call) else root.func
            if isinstance(root, ast.Name) and root.id in ('self', 'other'):
                bad.append(norm_src(n))
    rep.check(rule, site, not bad,
              'does not store into, or call a mutator/notifier on, an operand '
              '(found %s)' % bad, construct='pure', node=func)


def run(rep):
    repo = rep.repo
    dmod = repo.module('declarations.py')
    imod = repo.module('interface.py')
    rep.rule('R20.1', 'A - B keeps, in A\'s order, exactly the i of A for which '
             'no j of B has i.extends(j, strict=False)', floor=2)
    rep.rule('R20.2', 'A + B: starts from A\'s interfaces in order, skips '
             'seen ones, puts a new i of B in front iff it extends an '
             'interface already in the result, else at the end; __radd__ is '
             'the same function', floor=4)
    rep.rule('R20.3', '__contains__/__iter__/flattened/interfaces: membership '
             '= extends and in interfaces(); iteration = interfaces(); '
             'flattened = __iro__; interfaces() walks __bases__ forward, '
             'flattens, first occurrence wins; an interface yields itself',
             floor=5)
    rep.rule('R20.4', 'none of the operations modifies an operand', floor=6)
    rep.rule('R20.5', '_normalizeargs: interfaces/Implements appended as is, '
             'anything else iterated forward recursively into the same output '
             'list; Declaration(*bases) normalises its arguments', floor=2)
    rep.rule('R20.6', 'users: alsoProvides passes the existing direct '
             'declarations first; noLongerProvides declares '
             'directlyProvidedBy(object) - interface; directlyProvidedBy '
             'strips exactly the trailing class specification', floor=3)
    rep.decline('the ordered-set laws over all interface DAGs (they depend on '
                'extends, i.e. on C02/C03)')

    decl = find_def(dmod, 'Declaration')
    ms = methods_of(decl)

    # ---- R20.1 ---------------------------------------------------------------
    f = ms['__sub__']
    rets = [n for n in walk_local(f) if isinstance(n, ast.Return)]
    ok = len(rets) == 1
    detail = 'returns: %d' % len(rets)
    if ok:
        v = rets[0].value
        env = match('Declaration(*$c)', v)
        comp = None
        if env is not None:
            comp = env['c']
            if isinstance(comp, ast.Call) and dotted(comp.func) in ('tuple', 'list') \
                    and comp.args:
                comp = comp.args[0]
            comp = resolve_local(f, comp) if isinstance(comp, ast.Name) else comp
        if not isinstance(comp, (ast.ListComp, ast.GeneratorExp)) or \
                len(comp.generators) != 1:
            ok = False
            detail = ('result `%s` is not Declaration(*[i for i in '
                      'self.interfaces() if ...])' % norm_src(v)[:120])
        else:
            g = comp.generators[0]
            i = g.target.id if isinstance(g.target, ast.Name) else None
            src, d = iter_polarity(g.iter)
            oksrc = match('self.interfaces()', src) is not None and d == 'fwd'
            okelt = isinstance(comp.elt, ast.Name) and comp.elt.id == i
            okf = len(g.ifs) == 1
            fd = 'no filter'
            if okf:
                okf, fd = exists_filter(g.ifs[0], i)
            ok = oksrc and okelt and okf
            detail = fd if (oksrc and okelt) else (
                'iterates `%s` %s yielding `%s` (required self.interfaces(), '
                'forward, the interface itself)' % (norm_src(g.iter), d,
                                                    norm_src(comp.elt)))
    rep.check('R20.1', 'Declaration.__sub__', ok, detail, construct='predicate',
              node=f)
    # single pass, no in-place removal
    loops = [n for n in walk_local(f) if isinstance(n, (ast.For, ast.While))]
    rep.check('R20.1', 'Declaration.__sub__', not loops,
              'built in one pass (no loop that edits a list while iterating it)',
              construct='one-pass', node=f)

    # ---- R20.2 ---------------------------------------------------------------
    f = ms['__add__']
    res = resolve_local(f, ast.Name(id='result', ctx=ast.Load()))
    rep.check('R20.2', 'Declaration.__add__',
              match('list(self.interfaces())', res) is not None,
              'result starts as list(self.interfaces()): %s' % norm_src(res),
              construct='start', node=f)
    lps = [n for n in f.body if isinstance(n, ast.For)]
    ok = len(lps) == 1
    detail = 'loops: %d' % len(lps)
    if ok:
        lp = lps[0]
        src, d = iter_polarity(lp.iter)
        v = lp.target.id
        oksrc = match('other.interfaces()', src) is not None and d == 'fwd'
        seen = resolve_local(f, ast.Name(id='seen', ctx=ast.Load()))
        okseen = match('set(result)', seen) is not None
        skip = [n for n in lp.body if isinstance(n, ast.If)
                and match('%s in seen' % v, n.test) is not None
                and any(isinstance(s, ast.Continue) for s in n.body)]
        okskip = len(skip) == 1 and bool(find_all(lp, 'seen.add(%s)' % v))
        place = [n for n in lp.body if isinstance(n, ast.If) and n not in skip]
        okplace = False
        pd = 'placement test not found'
        if len(place) == 1:
            p = place[0]
            t = p.test
            e = match('any(%s.extends($x) for $x in result)' % v, t) or \
                match('any([%s.extends($x) for $x in result])' % v, t)
            okplace = e is not None and \
                any(match('before.append(%s)' % v, s, 'exec') is not None for s in p.body) \
                and any(match('result.append(%s)' % v, s, 'exec') is not None
                        for s in p.orelse)
            pd = ('new i goes to `before` iff any(i.extends(x) for x in result) '
                  '(receiver = the new interface), else appended: `%s`' % norm_src(t))
        rets = [n for n in walk_local(f) if isinstance(n, ast.Return)]
        okret = len(rets) == 1 and match('Declaration(*(before + result))',
                                         rets[0].value) is not None
        ok = oksrc and okseen and okskip and okplace and okret
        detail = ('source other.interfaces() fwd (%s); seen = set(result) and '
                  'skipping (%s/%s); %s (%s); returns Declaration(*(before + '
                  'result)) (%s)' % (oksrc, okseen, okskip, pd, okplace, okret))
    rep.check('R20.2', 'Declaration.__add__', ok, detail, construct='placement',
              node=f)
    v = class_attr_assign(decl, '__radd__')
    rep.check('R20.2', 'Declaration.__radd__',
              v is not None and dotted(v) == '__add__', '__radd__ = __add__',
              construct='radd', node=decl)
    bf = resolve_local(f, ast.Name(id='before', ctx=ast.Load()))
    rep.check('R20.2', 'Declaration.__add__', match('[]', bf) is not None,
              'before starts empty', construct='before', node=f)

    # ---- R20.3 ---------------------------------------------------------------
    f = ms['__contains__']
    p = shared.params(f)[1]
    rets = [n for n in walk_local(f) if isinstance(n, ast.Return)]
    ok = len(rets) == 1 and match(
        'self.extends(%s) and %s in self.interfaces()' % (p, p), rets[0].value) is not None
    rep.check('R20.3', 'Declaration.__contains__', ok,
              'returns %s' % [norm_src(r.value) for r in rets], node=f)
    f = ms['__iter__']
    rets = [n for n in walk_local(f) if isinstance(n, ast.Return)]
    rep.check('R20.3', 'Declaration.__iter__',
              len(rets) == 1 and match('self.interfaces()', rets[0].value) is not None,
              '__iter__ = interfaces()', node=f)
    f = ms['flattened']
    rets = [n for n in walk_local(f) if isinstance(n, ast.Return)]
    rep.check('R20.3', 'Declaration.flattened',
              len(rets) == 1 and match('iter(self.__iro__)', rets[0].value) is not None,
              'flattened = iter(__iro__)', node=f)
    f = find_def(imod, 'Specification.interfaces')
    lps = [n for n in f.body if isinstance(n, ast.For)]
    ok = len(lps) == 1
    if ok:
        lp = lps[0]
        src, d = iter_polarity(lp.iter)
        inner = [n for n in lp.body if isinstance(n, ast.For)]
        ok = match('self.__bases__', src) is not None and d == 'fwd' and len(inner) == 1
        if ok:
            il = inner[0]
            s2, d2 = iter_polarity(il.iter)
            iv = il.target.id
            ok = match('%s.interfaces()' % lp.target.id, s2) is not None and d2 == 'fwd'
            g = [n for n in il.body if isinstance(n, ast.If)
                 and match('%s not in seen' % iv, n.test) is not None]
            ok = ok and len(g) == 1 and \
                bool(find_all(g[0], 'yield %s' % iv, 'exec')) and \
                bool(find_all(g[0], 'seen[%s] = $v' % iv, 'exec') or
                     find_all(g[0], 'seen.add(%s)' % iv))
            exits = [n for n in walk_local(lp) if isinstance(
                n, (ast.Break, ast.Return, ast.Continue))]
            ok = ok and not exits
    rep.check('R20.3', 'Specification.interfaces', ok,
              'walks __bases__ forward, flattens each base\'s interfaces() '
              'forward, yields the first occurrence of each', node=f)
    f = find_def(imod, 'InterfaceClass.interfaces')
    ys = [n for n in walk_local(f) if isinstance(n, ast.Yield)]
    rep.check('R20.3', 'InterfaceClass.interfaces',
              len(ys) == 1 and match('self', ys[0].value) is not None,
              'an interface yields exactly itself', node=f)

    # ---- R20.4 ---------------------------------------------------------------
    for name in ('__sub__', '__add__', '__contains__', '__iter__', 'flattened'):
        purity(rep, 'R20.4', ms[name], 'Declaration.' + name)
    purity(rep, 'R20.4', find_def(imod, 'Specification.interfaces'),
           'Specification.interfaces')
    purity(rep, 'R20.4', find_def(imod, 'Specification.extends'),
           'Specification.extends')

    # ---- R20.5 ---------------------------------------------------------------
    f = find_def(dmod, '_normalizeargs')
    ps = shared.params(f)
    seq, out = ps[0], ps[1]
    ifs = [n for n in f.body if isinstance(n, ast.If) and n.orelse]
    ok = False
    for i in ifs:
        app = any(match('%s.append(%s)' % (out, seq), s, 'exec') is not None
                  for s in i.body)
        lps = [n for n in i.orelse if isinstance(n, ast.For)]
        if app and len(lps) == 1:
            lp = lps[0]
            src, d = iter_polarity(lp.iter)
            ok = match(seq, src) is not None and d == 'fwd' and bool(find_all(
                lp, '_normalizeargs(%s, %s)' % (lp.target.id, out))) and \
                ('InterfaceClass' in norm_src(i.test) and 'Implements' in norm_src(i.test))
    rets = [n for n in walk_local(f) if isinstance(n, ast.Return)]
    ok = ok and len(rets) == 1 and match(out, rets[0].value) is not None
    rep.check('R20.5', 'declarations._normalizeargs', ok,
              'interfaces / Implements are appended as is, other sequences are '
              'flattened in place, forward', node=f)
    f = ms['__init__']
    rep.check('R20.5', 'Declaration.__init__',
              bool(find_all(f, 'Specification.__init__(self, _normalizeargs(bases))')),
              'Declaration(*bases) stores the normalised arguments as bases, in '
              'order', node=f)

    # ---- R20.6 ---------------------------------------------------------------
    f = find_def(dmod, 'alsoProvides')
    ok = bool(find_all(f, 'directlyProvides(object, directlyProvidedBy(object), *interfaces)'))
    rep.check('R20.6', 'declarations.alsoProvides', ok,
              'existing direct declarations first, then the new interfaces',
              node=f)
    f = find_def(dmod, 'noLongerProvides')
    ok = bool(find_all(f, 'directlyProvides(object, directlyProvidedBy(object) - interface)'))
    g = [n for n in f.body if isinstance(n, ast.If)
         and match('interface.providedBy(object)', n.test) is not None
         and any(isinstance(s, ast.Raise) for s in n.body)]
    rep.check('R20.6', 'declarations.noLongerProvides', ok and len(g) == 1,
              'declares directlyProvidedBy(object) - interface, then rejects '
              'interfaces still provided through the class', node=f)
    f = find_def(dmod, 'directlyProvidedBy')
    rets = [n for n in walk_local(f) if isinstance(n, ast.Return)]
    vals = sorted(norm_src(r.value) for r in rets)
    rep.check('R20.6', 'declarations.directlyProvidedBy',
              vals == ['Declaration(provides.__bases__[:-1])', '_empty'],
              'strips exactly the last base (the class specification): %s' % vals,
              node=f)
