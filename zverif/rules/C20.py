"""C20 - declaration algebra: iteration, membership, + and - obey
ordered-set laws."""
import ast

from ..core import AnalysisError, norm_src
from ..pyfront import (find_def, find_all, match, walk_local, dotted, same,
                       calls_in, names_in, methods_of, class_attr_assign)
from ..flowq import (iter_polarity, resolve_local, loops_over, pred_of,
                     witness_path, nodes_with, any_pred)
from ..cfg import cfg_of, header_expr
from . import shared


def falsy_const(e):
    return isinstance(e, ast.Constant) and e.value in (0, False) and \
        e.value is not None


def exists_filter(cond, outer_var):
    """`cond` is "no j in other.interfaces() with outer.extends(j, non-strict)"
    Returns (ok, detail)."""
    neg = None
    inner = None
    if isinstance(cond, ast.UnaryOp) and isinstance(cond.op, ast.Not):
        neg = cond.operand
    else:
        return False, 'filter `%s` is not a negated existence test' % norm_src(cond)
    gen = None
    if isinstance(neg, (ast.ListComp, ast.GeneratorExp)):
        gen = neg
    elif isinstance(neg, ast.Call) and isinstance(neg.func, ast.Name) and \
            neg.func.id == 'any' and len(neg.args) == 1 and \
            isinstance(neg.args[0], (ast.ListComp, ast.GeneratorExp)):
        gen = neg.args[0]
    if gen is None or len(gen.generators) != 1:
        return False, 'filter `%s` is not an existence test over other.interfaces()' \
            % norm_src(cond)
    g = gen.generators[0]
    if match('other.interfaces()', g.iter) is None:
        return False, 'inner iteration over `%s` (required other.interfaces())' \
            % norm_src(g.iter)
    j = g.target.id if isinstance(g.target, ast.Name) else None
    tests = list(g.ifs)
    if isinstance(neg, ast.Call) or not tests:
        tests = tests + [gen.elt]
    tests = [t for t in tests if not (isinstance(t, ast.Name) and t.id == j)]
    if len(tests) != 1:
        return False, 'unexpected predicate structure `%s`' % norm_src(gen)
    t = tests[0]
    if not (isinstance(t, ast.Call) and isinstance(t.func, ast.Attribute)
            and t.func.attr == 'extends'):
        return False, 'predicate `%s` is not an extends() test' % norm_src(t)
    recv = t.func.value
    arg = t.args[0] if t.args else None
    strict = None
    if len(t.args) >= 2:
        strict = t.args[1]
    for kw in t.keywords:
        if kw.arg == 'strict':
            strict = kw.value
    okdir = isinstance(recv, ast.Name) and recv.id == outer_var and \
        isinstance(arg, ast.Name) and arg.id == j
    okstrict = strict is not None and falsy_const(strict)
    if not okdir:
        return False, ('predicate `%s`: receiver must be the interface of self '
                       'and the argument the interface of other (i extends j)'
                       % norm_src(t))
    if not okstrict:
        return False, 'predicate `%s` must be non-strict (an interface extends ' \
            'itself)' % norm_src(t)
    return True, 'keeps i iff no j in other.interfaces() with i.extends(j, strict=False)'


def purity(rep, rule, func, site):
    bad = []
    for n in walk_local(func):
        if isinstance(n, (ast.Assign, ast.AugAssign, ast.Delete)):
            tgts = n.targets if isinstance(n, (ast.Assign, ast.Delete)) else [n.target]
            for t in tgts:
                if isinstance(t, (ast.Attribute, ast.Subscript)):
                    base = t.value
                    while isinstance(base, (ast.Attribute, ast.Subscript)):
                        base = base.value
                    if isinstance(base, ast.Name) and base.id in ('self', 'other', 'interface'):
                        bad.append(norm_src(n))
        if isinstance(n, ast.Call) and isinstance(n.func, ast.Attribute) and \
                n.func.attr in ('changed', 'subscribe', 'unsubscribe', 'append',
                                'remove', 'extend', 'insert', 'pop', 'clear',
                                'update', 'sort', 'reverse', 'add', 'discard'):
            base = n.func.value
            root = base
            while isinstance(root, (ast.Attribute, ast.Subscript, ast.Call)):
                root = root.value if not isinstance(root, ast.Call) else root.func
            if isinstance(root, ast.Name) and root.id in ('self', 'other'):
                bad.append(norm_src(n))
    rep.check(rule, site, not bad,
              'does not store into, or call a mutator/notifier on, an operand '
              '(found %s)' % bad, construct='pure', node=func)


def run(rep):
    repo = rep.repo
    dmod = repo.module('declarations.py')
    imod = repo.module('interface.py')
    rep.rule('R20.1', 'A - B keeps, in A\'s order, exactly the i of A for which '
             'no j of B has i.extends(j, strict=False)', floor=2)
    rep.rule('R20.2', 'A + B: starts from A\'s interfaces in order, skips '
             'seen ones, puts a new i of B in front iff it extends an '
             'interface already in the result, else at the end; __radd__ is '
             'the same function', floor=3)
    rep.rule('R20.3', '__contains__/__iter__/flattened/interfaces: membership '
             '= extends and in interfaces(); iteration = interfaces(); '
             'flattened = __iro__; interfaces() walks __bases__ forward, '
             'flattens, first occurrence wins; an interface yields itself',
             floor=5)
    rep.rule('R20.4', 'none of the operations modifies an operand', floor=6)
    rep.rule('R20.5', '_normalizeargs: interfaces/Implements appended as is, '
             'anything else iterated forward recursively into the same output '
             'list; Declaration(*bases) normalises its arguments', floor=2)
    rep.rule('R20.6', 'users: alsoProvides passes the existing direct '
             'declarations first; noLongerProvides declares '
             'directlyProvidedBy(object) - interface; directlyProvidedBy '
             'strips exactly the trailing class specification', floor=3)
    rep.rule('R20.8', 'a declaration asked for again with the same arguments is '
             'computed against the class\'s CURRENT declarations: the shared Provides '
             'object (whose redundant interfaces were left out when it was built) is '
             'dropped from its memo whenever anything it was decided against changes '
             '(shared with C01 R01.1)', floor=1)
    rep.rule('R20.7', 'membership and iteration read the same, current data: every '
             'changed() override of a declaration class refreshes the implied set '
             'through Specification.changed on every path (shared with C02 R02.4)',
             floor=3)
    rep.rule('R20.9', 'iteration order follows the current hierarchy: flattened()/__iro__ of '
             'every declaration below a changed specification is recomputed - changed() '
             'notifies every dependent unconditionally, also when only the ORDER of the '
             'ancestors changed (C02 R02.2)', floor=2)
    rep.decline('the ordered-set laws over all interface DAGs (they depend on '
                'extends, i.e. on C02/C03)')

    decl = find_def(dmod, 'Declaration')
    ms = methods_of(decl)

    # ---- R20.1 ---------------------------------------------------------------
    from . import declsem
    declsem.decl_sub(rep, dmod, 'R20.1')

    # ---- R20.2 ---------------------------------------------------------------
    declsem.decl_add(rep, dmod, 'R20.2')
    v = class_attr_assign(decl, '__radd__')
    rep.check('R20.2', 'Declaration.__radd__',
              v is not None and dotted(v) == '__add__', '__radd__ = __add__',
              construct='radd', node=decl)

    # ---- R20.3 (decision rows over path summaries) ----------------------------
    from . import sem as _sem
    f = ms['__contains__']
    p = shared.params(f)[1]
    EXT = 'self.extends(%s)' % p
    rows = _sem.decision_rows(f, [EXT])
    bad = []
    for assign, ps, val in rows:
        want = '%s in self.interfaces()' % p if assign[EXT] else EXT
        if val != want:
            bad.append('extends=%s: returns `%s`' % (assign[EXT], val[:60]))
        calls = [_sem.nt(e.r) for e in ps.events if e.kind == 'call']
        if calls[:1] != [EXT]:
            bad.append('does not ask self.extends(%s) first: %s' % (p, calls[:2]))
    if {a_[EXT] for a_, _, _ in rows} != {True, False}:
        bad.append('cases seen: %s' % sorted({a_[EXT] for a_, _, _ in rows}))
    rep.check('R20.3', 'Declaration.__contains__', not bad,
              'membership = extends(i) and i in interfaces() (the falsy extends '
              'result itself otherwise)' if not bad else
              {'problems': sorted(set(bad))[:3]}, node=f)

    def returns_only(fn, want, site, text):
        ss_ = _sem.normal(_sem.summaries(fn))
        got = sorted({_sem.nt(ps.ret) for ps in ss_})
        extra = [_sem.nt(e.r) for ps in ss_ for e in ps.events if e.kind != 'call'
                 or _sem.nt(e.r) not in want]
        rep.check('R20.3', site, bool(ss_) and set(got) <= set(want) and not extra,
                  text if set(got) <= set(want) and not extra else
                  {'returns': got, 'other effects': extra[:2]}, node=fn)
    returns_only(ms['__iter__'], ['self.interfaces()'], 'Declaration.__iter__',
                 '__iter__ = interfaces()')
    returns_only(ms['flattened'], ['iter(self.__iro__)'], 'Declaration.flattened',
                 'flattened = iter(__iro__)')
    declsem.spec_interfaces(rep, imod, 'R20.3')
    f = find_def(imod, 'InterfaceClass.interfaces')
    ys = [n for n in walk_local(f) if isinstance(n, ast.Yield)]
    rep.check('R20.3', 'InterfaceClass.interfaces',
              len(ys) == 1 and match('self', ys[0].value) is not None,
              'an interface yields exactly itself', node=f)

    # ---- R20.4 ---------------------------------------------------------------
    for name in ('__sub__', '__add__', '__contains__', '__iter__', 'flattened'):
        purity(rep, 'R20.4', ms[name], 'Declaration.' + name)
    purity(rep, 'R20.4', find_def(imod, 'Specification.interfaces'),
           'Specification.interfaces')
    purity(rep, 'R20.4', find_def(imod, 'Specification.extends'),
           'Specification.extends')

    # ---- R20.5 ---------------------------------------------------------------
    declsem.normalizeargs(rep, dmod, 'R20.5')
    f = ms['__init__']
    rep.check('R20.5', 'Declaration.__init__',
              bool(find_all(f, 'Specification.__init__(self, _normalizeargs(bases))')),
              'Declaration(*bases) stores the normalised arguments as bases, in '
              'order', node=f)

    # ---- R20.7 ---------------------------------------------------------------
    from .C02 import r02_4
    r02_4(rep, rep.repo, 'R20.7')
    from .C01 import r01_1
    r01_1(rep, rep.repo.module('declarations.py'), 'R20.8')

    # ---- R20.6 ---------------------------------------------------------------
    declsem.provides_users(rep, dmod, 'R20.6')
    f = find_def(dmod, 'directlyProvidedBy')
    P = "getattr(object, '__provides__', None)"
    A_NONE, A_IMPL = '%s is None' % P, 'isinstance(%s, Implements)' % P
    rows = _sem.decision_rows(f, [A_NONE, A_IMPL])
    bad = []
    seen_rows = set()
    for assign, ps, val in rows:
        if assign[A_NONE] and assign[A_IMPL]:
            continue            # None is not an Implements
        seen_rows.add((assign[A_NONE], assign[A_IMPL]))
        want = '_empty' if (assign[A_NONE] or assign[A_IMPL]) else \
            'Declaration(%s.__bases__[:-1])' % P
        if val != want:
            bad.append('no declaration=%s, class spec=%s: returns `%s`'
                       % (assign[A_NONE], assign[A_IMPL], val[:60]))
    if seen_rows != {(True, False), (False, True), (False, False)}:
        bad.append('cases seen: %s' % sorted(seen_rows))
    rep.check('R20.6', 'declarations.directlyProvidedBy', not bad,
              'no __provides__ or the class\'s own Implements -> _empty; otherwise '
              'strips exactly the last base (the class specification)' if not bad
              else {'problems': sorted(set(bad))[:3]}, node=f)
    from . import specsem as _s9
    _s9.changed_recompute(rep, rep.repo.module('interface.py'), 'R20.9')
    _s9.changed_notify(rep, rep.repo.module('interface.py'), 'R20.9')
