"""C14 - calling an interface follows the PEP 246 adaptation order.

The adaptation chain only tests its intermediate results for None/NULL and
calls opaque producers, so its behaviour is a finite decision table over
{__conform__ absent / None / returns None / returns X / attribute raises /
call raises AttributeError} x {__adapt__ returns None / Y} x {alternate
given?}, and over {provided?} x {hook results} for __adapt__.  Both the Python
reference and the C accelerator are enumerated and compared with the
specification, including the order in which the producers are called."""
import ast

from ..core import AnalysisError, norm_src
from ..pyfront import (find_def, find_all, match, walk_local, methods_of, dotted)
from ..peval import Interp, Opaque, outcome, Raised
from ..ceval import CInterp, Sym
from ..cfront import ccfg, show, node_calls
from . import cside, shared
from .cside import ccheck

TABLES = {}

CONFORM = ('absent', 'none_attr', 'ret_none', 'ret_x', 'attr_raises_other',
           'call_raises_attributeerror')
ADAPT = ('none', 'y')
ALT = (False, True)


def spec_call(conform, adapt, alt):
    """-> (outcome, producers called in order)"""
    if conform == 'attr_raises_other':
        return ('raise', 'ValueError'), []
    calls = []
    if conform in ('ret_none', 'ret_x', 'call_raises_attributeerror'):
        calls.append('conform')
        if conform == 'call_raises_attributeerror':
            return ('raise', 'AttributeError'), calls
        if conform == 'ret_x':
            return ('return', 'X'), calls
    calls.append('adapt')
    if adapt == 'y':
        return ('return', 'Y'), calls
    if alt:
        return ('return', 'ALT'), calls
    return ('raise', 'TypeError'), calls


def py_call_table(ib):
    f = methods_of(ib)['__call__']
    table = {}
    for conform in CONFORM:
        for adapt in ADAPT:
            for alt in ALT:
                trace = []
                X = Opaque('X', label='X')
                Y = Opaque('Y', label='Y')
                ALTV = Opaque('ALT', label='ALT')
                marker = Opaque('_marker', label='_marker')
                cobj = Opaque('conform', label='conform')
                attrs = {}
                if conform == 'none_attr':
                    attrs['__conform__'] = None
                elif conform == 'attr_raises_other':
                    attrs['__conform__'] = Raised('ValueError')
                elif conform != 'absent':
                    attrs['__conform__'] = cobj
                obj = Opaque('obj', attrs=attrs, label='obj')
                selfo = Opaque('self', attrs={}, label='self')

                def call_hook(n, env, interp, conform=conform, adapt=adapt,
                              trace=trace, X=X, Y=Y):
                    fn = n.func
                    if isinstance(fn, ast.Attribute) and isinstance(fn.value, ast.Name) \
                            and fn.value.id == 'self':
                        args = [interp.ev(a, env) for a in n.args]
                        if fn.attr == '_call_conform':
                            trace.append('conform')
                            if conform == 'call_raises_attributeerror':
                                raise Raised('AttributeError')
                            return X if conform == 'ret_x' else None
                        if fn.attr == '__adapt__':
                            trace.append('adapt')
                            return Y if adapt == 'y' else None
                    raise AnalysisError('call outside the adaptation model: %s'
                                        % norm_src(n))
                it = Interp(hooks={'call': call_hook,
                                   'name': lambda nm, marker=marker:
                                   marker if nm == '_marker' else
                                   (_ for _ in ()).throw(AnalysisError('name ' + nm))})
                args = [selfo, obj] + ([ALTV] if alt else [])
                try:
                    it.steps = 0
                    env_defaults = None
                    v = None
                    try:
                        v = it.run(f, args)
                        out = ('return', v.label if isinstance(v, Opaque) else v)
                    except Raised as r:
                        out = ('raise', r.name)
                        if r.name == 'TypeError':
                            TABLES.setdefault('py_typeerror_args', [
                                getattr(a, 'label', a) for a in r.args_])
                except AnalysisError as e:
                    out = ('UNDECIDED', str(e))
                table[(conform, adapt, alt)] = (out, list(trace))
    return table


def py_adapt_table(ib):
    f = methods_of(ib)['__adapt__']
    table = {}
    for provided in (False, True):
        for h1 in (None, 'A'):
            for h2 in (None, 'B'):
                trace = []
                obj = Opaque('obj', label='obj')
                selfo = Opaque('self', attrs={}, label='self')
                A, B = Opaque('A', label='A'), Opaque('B', label='B')

                def mk(name, res, trace=trace, selfo=selfo, obj=obj):
                    def hook(*a):
                        trace.append((name, tuple(getattr(x, 'label', x) for x in a)))
                        return res
                    return hook
                hooks = [mk('h1', A if h1 else None), mk('h2', B if h2 else None)]

                def call_hook(n, env, interp, provided=provided, trace=trace):
                    fn = n.func
                    if isinstance(fn, ast.Attribute) and isinstance(fn.value, ast.Name) \
                            and fn.value.id == 'self' and fn.attr == 'providedBy':
                        trace.append(('providedBy',))
                        return provided
                    raise AnalysisError('call outside the model: %s' % norm_src(n))
                it = Interp(hooks={'call': call_hook,
                                   'name': lambda nm, hooks=hooks: hooks
                                   if nm == 'adapter_hooks' else
                                   (_ for _ in ()).throw(AnalysisError('name ' + nm))})
                try:
                    v = it.run(f, [selfo, obj])
                    out = ('return', v.label if isinstance(v, Opaque) else v)
                except Raised as r:
                    out = ('raise', r.name)
                except AnalysisError as e:
                    out = ('UNDECIDED', str(e))
                table[(provided, h1, h2)] = (out, [t[0] for t in trace],
                                             [t[1] for t in trace if len(t) > 1])
    return table


def spec_adapt(provided, h1, h2):
    if provided:
        return ('return', 'obj'), ['providedBy']
    if h1:
        return ('return', 'A'), ['providedBy', 'h1']
    if h2:
        return ('return', 'B'), ['providedBy', 'h1', 'h2']
    return ('return', None), ['providedBy', 'h1', 'h2']


# ---------------------------------------------------------------------------
# C models

class CallModel:
    def __init__(self, conform, adapt, alt, custom):
        self.conform, self.adapt, self.alt, self.custom = conform, adapt, alt, custom
        self.g = {}
        self.err = None
        self.trace = []
        self.selfo, self.obj = Sym('self'), Sym('obj')
        self.X, self.Y, self.ALT = Sym('X'), Sym('Y'), Sym('ALT')
        self.cobj = Sym('conform')
        self.exc_args = None

    def glob(self, name):
        return self.g.setdefault(name, Sym(name))

    def field(self, base, name):
        if name in ('ob_type', 'tp_dict'):
            return Sym('%s.%s' % (base, name))
        raise AnalysisError('unexpected field %s' % name)

    def setfield(self, base, name, v):
        raise AnalysisError('adaptation code stores to a field')

    def call(self, name, args, interp, env):
        g = self.glob
        if name in ('Py_INCREF', 'Py_XINCREF', 'Py_DECREF', 'Py_XDECREF'):
            return None
        if name == 'PyArg_ParseTupleAndKeywords':
            outs = [a for a in args[4:]]
            vals = [self.obj] + ([self.ALT] if self.alt else [])
            kw = args[3]
            self.kwlist = kw
            self.fmt = args[2]
            for o, v in zip(outs, vals):
                env[o.a[0].a[0]] = v
            return 1
        if name == 'PyObject_GetAttr':
            ob, attr = args
            if ob is self.obj and getattr(attr, 'name', '') == 'str__conform__':
                if self.conform == 'absent':
                    self.err = 'AttributeError'
                    return None
                if self.conform == 'attr_raises_other':
                    self.err = 'ValueError'
                    return None
                if self.conform == 'none_attr':
                    return g('Py_None')
                return self.cobj
            raise AnalysisError('unexpected attribute probe %r.%r' % (ob, attr))
        if name == 'PyErr_ExceptionMatches':
            return 1 if self.err == getattr(args[0], 'name', '')[6:] else 0
        if name == 'PyErr_Clear':
            self.err = None
            return None
        if name == 'PyObject_CallMethodObjArgs':
            ob, meth = args[0], getattr(args[1], 'name', '')
            if ob is self.selfo and meth == 'str_call_conform':
                self.trace.append('conform')
                if args[2] is not self.cobj:
                    raise AnalysisError('_call_conform called with %r' % (args[2],))
                if self.conform == 'call_raises_attributeerror':
                    self.err = 'AttributeError'
                    return None
                return self.X if self.conform == 'ret_x' else g('Py_None')
            if ob is self.selfo and meth == 'str__adapt__':
                self.trace.append('adapt')
                if args[2] is not self.obj:
                    raise AnalysisError('__adapt__ called with %r' % (args[2],))
                return self.Y if self.adapt == 'y' else g('Py_None')
            raise AnalysisError('unexpected method call %s' % meth)
        if name == 'IB__adapt__':
            self.trace.append('adapt')
            if args[0] is not self.selfo or args[1] is not self.obj:
                raise AnalysisError('IB__adapt__ called with %r' % (args,))
            return self.Y if self.adapt == 'y' else g('Py_None')
        if name == 'PyDict_GetItemString':
            self.flag = args[1]
            return Sym('flag') if self.custom else None
        if name == 'PyObject_HasAttrString' or name == 'PyObject_GetAttrString':
            self.flag = args[1]
            return (1 if name.endswith('HasAttrString') else Sym('flag')) \
                if self.custom else (0 if name.endswith('HasAttrString') else None)
        if name == 'Py_TYPE':
            return Sym('type(self)')
        if name == 'Py_BuildValue':
            self.exc_args = (args[0], [getattr(a, 'name', a) for a in args[1:]])
            return Sym('excargs')
        if name in ('PyUnicode_FromString', 'PyUnicode_InternFromString') and \
                isinstance(args[0], str):
            return Sym('str:' + args[0])
        if name == 'PyTuple_Pack' and isinstance(args[0], int) and \
                len(args) == args[0] + 1:
            # the same tuple Py_BuildValue builds from "s"/"O" codes
            fmt, vals = '', []
            for a in args[1:]:
                nm = getattr(a, 'name', a)
                if isinstance(nm, str) and nm.startswith('str:'):
                    fmt += 's'
                    vals.append(nm[4:])
                else:
                    fmt += 'O'
                    vals.append(nm)
            self.exc_args = (fmt, vals)
            return Sym('excargs')
        if name == 'PyErr_SetObject':
            self.err = getattr(args[0], 'name', '')[6:]
            return None
        raise AnalysisError('call %s is outside the adaptation model' % name)


def c_call_table(u):
    f = u.func('IB__call__')
    table = {}
    for custom in (False, True):
        for conform in CONFORM:
            for adapt in ADAPT:
                for alt in ALT:
                    m = CallModel(conform, adapt, alt, custom)
                    it = CInterp(m)
                    try:
                        v = it.run(f, [m.selfo, Sym('args'), Sym('kwargs')])
                        if v is None:
                            out = ('raise', m.err or 'NULL-without-error')
                        elif v is m.glob('Py_None'):
                            out = ('return', None)
                        else:
                            out = ('return', v.name)
                    except AnalysisError as e:
                        out = ('UNDECIDED', str(e))
                    table[(custom, conform, adapt, alt)] = (out, list(m.trace),
                                                            m.exc_args)
    return table


class AdaptModel:
    def __init__(self, provided, h1, h2):
        self.provided, self.h1, self.h2 = provided, h1, h2
        self.g = {}
        self.err = None
        self.trace = []
        self.selfo, self.obj = Sym('self'), Sym('obj')
        self.decl = Sym('decl')
        self.hooks = [Sym('hook1'), Sym('hook2')]
        self.A, self.B = Sym('A'), Sym('B')
        self.tuples = {}

    def glob(self, name):
        return self.g.setdefault(name, Sym(name))

    def field(self, base, name):
        if base is self.decl and name == '_implied':
            return Sym('implied')
        raise AnalysisError('unexpected field %s' % name)

    def setfield(self, base, name, v):
        raise AnalysisError('store to field')

    def call(self, name, args, interp, env):
        g = self.glob
        if name in ('Py_INCREF', 'Py_XINCREF', 'Py_DECREF', 'Py_XDECREF'):
            return None
        if name in ('_get_module', 'Py_TYPE', '_get_specification_base_class'):
            return Sym(name)
        if name == 'providedBy':
            self.trace.append('providedBy')
            if args[1] is not self.obj:
                raise AnalysisError('providedBy(%r)' % (args[1],))
            return self.decl
        if name == 'PyObject_TypeCheck':
            return 1
        if name == 'PyDict_GetItem':
            if args[1] is not self.selfo:
                raise AnalysisError('implied probed with %r' % (args[1],))
            return Sym('()') if self.provided else None
        if name == '_get_adapter_hooks':
            return Sym('adapter_hooks')
        if name == 'PyList_GET_SIZE':
            return len(self.hooks)
        if name == 'PyTuple_New':
            t = Sym('tuple%d' % len(self.tuples))
            self.tuples[t] = [None] * args[0]
            return t
        if name == 'PyTuple_SET_ITEM':
            self.tuples[args[0]][args[1]] = args[2]
            return None
        if name == 'PyTuple_Pack':
            t = Sym('tuple%d' % len(self.tuples))
            self.tuples[t] = list(args[1:1 + args[0]])
            return t
        if name == 'PyObject_IsTrue':
            return 1 if args[0] is not None else 0
        if name == 'PyTuple_GET_ITEM':
            if getattr(args[0], 'name', '') == 'adapter_hooks':
                if not (0 <= args[1] < len(self.hooks)):
                    raise AnalysisError('hook index %r out of range' % (args[1],))
                return self.hooks[args[1]]
            raise AnalysisError('GET_ITEM of %r' % (args[0],))
        if name == 'PyObject_CallObject':
            hook, t = args
            i = self.hooks.index(hook)
            self.trace.append(('h%d' % (i + 1), tuple(
                x.name for x in self.tuples.get(t, []) if x is not None)))
            res = (self.h1, self.h2)[i]
            if not res:
                return g('Py_None')
            return (self.A, self.B)[i]
        raise AnalysisError('call %s is outside the __adapt__ model' % name)


def c_adapt_table(u):
    f = u.func('IB__adapt__')
    table = {}
    for provided in (False, True):
        for h1 in (None, 'A'):
            for h2 in (None, 'B'):
                m = AdaptModel(provided, h1, h2)
                it = CInterp(m)
                try:
                    v = it.run(f, [m.selfo, m.obj])
                    if v is None:
                        out = ('raise', m.err or 'NULL')
                    elif v is m.glob('Py_None'):
                        out = ('return', None)
                    else:
                        out = ('return', v.name)
                except AnalysisError as e:
                    out = ('UNDECIDED', str(e))
                names = [t if isinstance(t, str) else t[0] for t in m.trace]
                hargs = [t[1] for t in m.trace if not isinstance(t, str)]
                table[(provided, h1, h2)] = (out, names, hargs)
    return table


def run(rep):
    repo = rep.repo
    mod = repo.module('interface.py')
    rep.rule('R14.1', 'first-non-None chain of InterfaceBase.__call__ (Python '
             'and C): __conform__ result, then __adapt__, then the alternate, '
             'else TypeError; later producers are never called after an '
             'earlier success; decision table over all cases', floor=2)
    rep.rule('R14.2', 'only AttributeError from *reading* __conform__ is '
             'swallowed: other errors from the read, and any error from '
             'calling it, propagate (rows of the same tables)', floor=2)
    rep.rule('R14.3', 'custom __adapt__: the flag written by '
             'InterfaceClass.__new__ is the constant the C code probes, it is '
             'set for own and inherited custom __adapt__, and under the flag C '
             'dispatches to the __adapt__ method', floor=3)
    rep.rule('R14.4', '__adapt__: provided -> the object itself; else hooks '
             'in list order, first non-None wins, each called as hook(self, '
             'obj); none -> None (Python and C tables)', floor=2)
    rep.rule('R14.5', 'the TypeError carries ("Could not adapt", obj, self)',
             floor=2)
    rep.rule('R14.6', 'a registry hook binds as hook(interface, object): '
             'LookupBase.adapter_hook(provided, object, ...) and '
             'queryAdapter(object, provided) share one worker', floor=2)
    rep.rule('R14.7', 'hooks are arbitrary code and may change adapter_hooks while '
             '__adapt__ walks it (the Python reference iterates the live list): the C '
             'walk bounds its index by the CURRENT list size at every step and holds '
             'each hook across its call', floor=1)
    rep.rule('R14.8', '"obj itself if it provides I" means I.providedBy(obj) - a method '
             'an interface may override with @interfacemethod: the C __adapt__, which '
             'inlines the default providedBy, must not be what such an interface uses '
             '(shared with C10 F13)', floor=1)
    rep.decline('none (relative to providedBy, C01, and the registry lookup, '
                'C04/C08)')

    ib = find_def(mod, 'InterfaceBase')
    u = cside.cu(rep)

    # ---- R14.2: _call_conform (used by both twins) over path summaries ---------------
    from ..sympath import summaries as _S
    from .sem import nt as _nt
    cc = find_def(mod, 'InterfaceClass._call_conform')
    TB = 'sys.exc_info()[2].tb_next is None'
    probs = []
    kinds = set()
    for ps in _S(cc, normal_only=False):
        if ps.kind == 'raise' and ps.ret_node is None:
            continue          # propagated from a call: nothing swallowed
        excs = [c for c, t, p in ps.order if c.startswith('EXCEPT(')]
        if not excs:
            if ps.kind == 'raise':
                continue
            kinds.add('plain')
            if _nt(ps.ret) != 'conform(self)':
                probs.append('returns `%s` (required conform(self))' % _nt(ps.ret)[:40])
            continue
        if excs != ['EXCEPT(TypeError)']:
            probs.append('handles %s' % excs)
            continue
        other = [c for c, t, p in ps.order if c not in ('EXCEPT(TypeError)', TB)]
        if other:
            probs.append('a TypeError is kept or dropped depending on `%s`' % other[0][:60])
            continue
        own = ps.facts.get(TB)
        if own is None:
            probs.append('a TypeError is handled without looking at the traceback depth')
        elif own:
            kinds.add('unbound-call')
            if ps.kind == 'raise' or _nt(ps.ret) != 'None':
                probs.append('the TypeError of calling an unbound __conform__ is not '
                             'turned into None')
        else:
            kinds.add('genuine')
            if ps.kind != 'raise' or ps.raised is not None:
                probs.append('a TypeError raised inside __conform__ is not re-raised')
    if kinds != {'plain', 'unbound-call', 'genuine'}:
        probs.append('cases seen %s' % sorted(kinds))
    rep.check('R14.2', 'InterfaceClass._call_conform', not probs,
              'calls conform(self); a TypeError is swallowed only when it was raised '
              'by the call itself (traceback depth 1: unbound method on a class), any '
              'TypeError from inside __conform__ propagates' if not probs else
              {'problems': sorted(set(probs))[:3]}, construct='call-conform', node=cc)

    # ---- R14.1 / R14.2 / R14.5 (PY) ----------------------------------------------
    pt = py_call_table(ib)
    bad1, bad2 = [], []
    for (conform, adapt, alt), (out, trace) in sorted(pt.items(), key=str):
        want, wtrace = spec_call(conform, adapt, alt)
        row = {'conform': conform, 'adapt': adapt, 'alternate': alt,
               'code': [out, trace], 'spec': [want, wtrace]}
        if out != want or trace != wtrace:
            (bad2 if conform in ('attr_raises_other', 'call_raises_attributeerror',
                                 'absent') and out[0] != 'UNDECIDED' and
             (out != want) and conform != 'absent' else bad1).append(row)
    TABLES['py_call_cases'] = len(pt)
    f = methods_of(ib)['__call__']
    rep.check('R14.1', 'InterfaceBase.__call__', not bad1,
              '%d cases agree with the PEP 246 order (outcome and producer '
              'call order)' % len(pt) if not bad1 else
              {'disagreements': len(bad1), 'first': bad1[:3]},
              construct='table', node=f)
    rep.check('R14.2', 'InterfaceBase.__call__', not bad2,
              'errors other than AttributeError from the __conform__ read, and '
              'every error raised by the __conform__ call, propagate'
              if not bad2 else {'disagreements': len(bad2), 'first': bad2[:3]},
              construct='exception-filter', node=f)
    targs = TABLES.get('py_typeerror_args')
    rep.check('R14.5', 'InterfaceBase.__call__',
              targs == ['Could not adapt', 'obj', 'self'],
              'TypeError arguments %s' % (targs,), construct='typeerror', node=f)

    # ---- C ---------------------------------------------------------------------
    ct = c_call_table(u)
    bad1, bad2, excargs = [], [], set()
    for (custom, conform, adapt, alt), (out, trace, ea) in sorted(ct.items(), key=str):
        want, wtrace = spec_call(conform, adapt, alt)
        if ea:
            excargs.add((ea[0], tuple(ea[1])))
        row = {'custom_adapt': custom, 'conform': conform, 'adapt': adapt,
               'alternate': alt, 'code': [out, trace], 'spec': [want, wtrace]}
        if out != want or trace != wtrace:
            (bad2 if conform in ('attr_raises_other', 'call_raises_attributeerror')
             and out[0] != 'UNDECIDED' else bad1).append(row)
    TABLES['c_call_cases'] = len(ct)
    ccheck(rep, 'R14.1', 'IB__call__', not bad1,
           '%d cases (x custom-__adapt__ flag) agree with the PEP 246 order'
           % len(ct) if not bad1 else {'disagreements': len(bad1), 'first': bad1[:3]},
           construct='table')
    ccheck(rep, 'R14.2', 'IB__call__', not bad2,
           'only AttributeError from the __conform__ read is cleared'
           if not bad2 else {'disagreements': len(bad2), 'first': bad2[:3]},
           construct='exception-filter')
    ccheck(rep, 'R14.5', 'IB__call__',
           excargs == {('sOO', ('Could not adapt', 'obj', 'self'))},
           'TypeError built from %s' % sorted(excargs), construct='typeerror')

    # ---- R14.3 -------------------------------------------------------------------
    new = find_def(mod, 'InterfaceClass.__new__')
    # over path summaries: the flag is stored in the new class's namespace
    # exactly when __adapt__ is among the interface methods, or the class being
    # derived from already carries the flag
    pw, kinds, inh = [], set(), set()
    for ps in _S(new):
        own = None
        flag = None
        for c, t, p in ps.order:
            if c.startswith("'__adapt__' in "):
                own = t
            if c == "getattr(cls, '_CALL_CUSTOM_ADAPT', None)" or \
                    c.startswith("hasattr(cls, '_CALL_CUSTOM_ADAPT'") or \
                    c == 'cls._CALL_CUSTOM_ADAPT':
                flag = t
        st = [e for e in ps.stores() if isinstance(e.r, ast.Subscript)
              and _nt(e.r.slice) == "'_CALL_CUSTOM_ADAPT'"]
        if own is None:
            if st:
                pw.append('the flag is written without looking for __adapt__')
            continue
        kinds.add(own)
        if flag is not None:
            inh.add(flag)
        # an __adapt__ put among the methods on this path counts like a given one
        put = [e for e in ps.stores() if isinstance(e.r, ast.Subscript)
               and _nt(e.r.slice) == "'__adapt__'"]
        need = bool(own) or bool(flag) or bool(put)
        if need != (len(st) == 1) or len(st) > 1:
            pw.append("__adapt__ given: %s, inherited flag: %s, flag stores: %d"
                      % (own, flag, len(st)))
    if kinds != {True, False}:
        pw.append('cases seen %s' % sorted(kinds))
    okw, own = not pw, not pw
    inherited = inh == {True, False}
    rep.check('R14.3', 'InterfaceClass.__new__', okw and own,
              'the flag _CALL_CUSTOM_ADAPT is written when __adapt__ is among '
              'the interface methods (or the flag is inherited)' if not pw else
              {'problems': sorted(set(pw))[:3]}, construct='writer', node=new)
    f = u.func('IB__call__')
    # the probe may sit in IB__call__ itself or in a helper it calls: helpers
    # are followed unless they are modelled adaptation steps of their own
    seen_f, todo_f, fcalls = set(), ['IB__call__'], []
    while todo_f:
        fn = todo_f.pop()
        if fn in seen_f or fn not in u.funcs:
            continue
        seen_f.add(fn)
        for n in ccfg(u.funcs[fn]).nodes:
            for c in node_calls(n):
                fcalls.append(c)
                if isinstance(c.a[0], str) and c.a[0] in u.funcs and \
                        c.a[0] != 'IB__adapt__':
                    todo_f.append(c.a[0])
    probes = [c for c in fcalls
              if c.a[0] in ('PyDict_GetItemString', 'PyObject_HasAttrString',
                            'PyObject_GetAttrString')
              and c.a[1] and c.a[1][-1].k == 'str']
    const = [c.a[1][-1].a[0] for c in probes]
    mro_aware = any(c.a[0] != 'PyDict_GetItemString' for c in probes)
    ccheck(rep, 'R14.3', 'IB__call__', const == ['_CALL_CUSTOM_ADAPT'],
           'the C code probes the same constant: %s' % const, construct='reader')
    rep.check('R14.3', 'InterfaceClass.__new__', inherited or mro_aware,
              'an inherited custom __adapt__ is honoured: the C code looks only '
              'in the class\'s own dict (%s), so the writer must repeat the flag '
              'on derived classes (%s)' % (not mro_aware, inherited),
              construct='inherited', node=new)

    # ---- R14.4 -------------------------------------------------------------------
    pa = py_adapt_table(ib)
    bad = []
    for k, (out, names, hargs) in sorted(pa.items(), key=str):
        want, wnames = spec_adapt(*k)
        okargs = all(a == ('self', 'obj') for a in hargs)
        if out != want or names != wnames or not okargs:
            bad.append({'case': k, 'code': [out, names, hargs], 'spec': [want, wnames]})
    f = methods_of(ib)['__adapt__']
    rep.check('R14.4', 'InterfaceBase.__adapt__', not bad,
              '%d cases: provided -> obj; else hooks in order, first non-None, '
              'called as hook(self, obj)' % len(pa) if not bad else
              {'disagreements': len(bad), 'first': bad[:3]}, construct='table',
              node=f)
    ca = c_adapt_table(u)
    bad = []
    for k, (out, names, hargs) in sorted(ca.items(), key=str):
        want, wnames = spec_adapt(*k)
        okargs = all(a == ('self', 'obj') for a in hargs)
        if out != want or names != wnames or not okargs:
            bad.append({'case': k, 'code': [out, names, hargs], 'spec': [want, wnames]})
    ccheck(rep, 'R14.4', 'IB__adapt__', not bad,
           '%d cases agree (hooks indexed 0..n-1 in order, 2-tuple (self, obj))'
           % len(ca) if not bad else {'disagreements': len(bad), 'first': bad[:3]},
           construct='table')

    # ---- R14.6 -------------------------------------------------------------------
    amod = repo.module('adapter.py')
    h = find_def(amod, 'LookupBase.adapter_hook')
    ps = shared.params(h)
    rep.check('R14.6', 'LookupBase.adapter_hook', ps[:3] == ['self', 'provided', 'object'],
              'adapter_hook(provided, object, ...) is what hook(interface, obj) '
              'binds to: %s' % ps, construct='signature', node=h)
    q = find_def(amod, 'LookupBase.queryAdapter')
    rep.check('R14.6', 'LookupBase.queryAdapter',
              bool(find_all(q, 'self.adapter_hook(provided, object, name, default)')),
              'queryAdapter(object, provided) runs the same worker',
              construct='same-worker', node=q)

    # the verifying registry's two entries (the hook and queryAdapter) run the
    # same generation check before the same worker, so they answer alike
    cside.verify_first(rep, u, rule='R14.6', only=('adapter_hook', 'queryAdapter'))

    # ---- R14.8 ---------------------------------------------------------------
    from . import csem as _csem8
    _csem8.adapt_dispatch(rep, 'R14.8', u, mod)

    # ---- R14.7 ---------------------------------------------------------------
    from . import csem as _csem
    _csem.hook_walk(rep, 'R14.7', u)


def extra_coverage(rep):
    return {'exhaustive': True, 'decision_tables': TABLES}
