"""C-accelerator rules over path summaries (csym): they state what the C
functions do on every path in terms of resolved expressions, so they do not
depend on local names, temporaries, branch orientation, shared exit code or
code moved into new static helpers."""
import re

from ..core import AnalysisError
from ..cfront import show, ccfg, node_calls, E
from ..csym import csummaries, summariser

NOISE = ('Py_INCREF', 'Py_DECREF', 'Py_XINCREF', 'Py_XDECREF', 'Py_CLEAR')


def S(u, fn):
    u.func(fn)          # anchor check
    return csummaries(u, fn)


def returning(ss):
    return [ps for ps in ss if ps.kind == 'return']


def ret(ps):
    return show(ps.ret) if ps.ret is not None else ''


def calls(ps, name=None):
    return [e for e in ps.events if e.kind == 'call' and
            (name is None or e.name == name)]


def path_clears(ps, fld, base='self'):
    """the path leaves base->fld empty having released what it held: Py_CLEAR of
    the field, or - the same spelled by hand - a NULL store to it together with a
    DECREF/XDECREF of the value it held"""
    tgt = '%s->%s' % (base, fld)
    if any(args_of(e) == [tgt] for e in calls(ps, 'Py_CLEAR')):
        return True
    nulled = any(e.kind == 'store' and show(e.e) == tgt and e.val is not None and
                 e.val.k == 'null' for e in ps.events)
    dropped = any(args_of(e) == [tgt] for e in calls(ps, 'Py_DECREF') + calls(ps, 'Py_XDECREF'))
    if nulled and dropped:
        return True
    # ... or the path found the field empty already (and did not fill it)
    stored = any(e.kind == 'store' and show(e.e) == tgt and
                 not (e.val is not None and e.val.k == 'null') for e in ps.events)
    return ps.facts.get(tgt) is False and not stored


_FN_CLEARS = {}


def fn_clears(u, name, fld):
    """every returning path of the accelerator function `name` clears self->fld
    (helpers it calls are expanded by the path summaries)"""
    key = (id(u), name, fld)
    if key not in _FN_CLEARS:
        try:
            ss = [ps for ps in S(u, name) if ps.kind in ('return', 'fall')]
            f = u.func(name)
            base = f.params[0][0] if f.params else 'self'
            _FN_CLEARS[key] = bool(ss) and all(path_clears(ps, fld, base) for ps in ss)
        except Exception:
            _FN_CLEARS[key] = False
    return _FN_CLEARS[key]


def work(ps):
    """call events without reference counting"""
    return [e for e in ps.events if e.kind == 'call' and e.name not in NOISE]


def fact(ps, key):
    return ps.facts.get(key)


def facts_about(ps, text):
    return [(k, t) for k, t, p in ps.order if text in k]


def last_failed_call(ps, idx):
    """key of the most recent fact before event idx saying a call returned
    NULL/zero"""
    for k, t, p in reversed(ps.order):
        if p <= idx and not t and re.match(r'^[A-Za-z_]\w*\(', k):
            return k
    return None


def int_values(ps, text, domain=(-1, 0, 1)):
    """values of the int expression `text` consistent with the path facts"""
    out = []
    for v in domain:
        ok = True
        for k, t, p in ps.order:
            val = None
            if k == text:
                val = v != 0
            else:
                m = re.match(r'^\((.*) (==|<) (.*)\)$', k)
                if m:
                    a, op, b = m.groups()

                    def num(x):
                        if x == text:
                            return v
                        try:
                            return int(x)
                        except ValueError:
                            return None
                    x, y = num(a), num(b)
                    if x is not None and y is not None and (a == text or b == text):
                        val = (x == y) if op == '==' else (x < y)
            if val is not None and val != t:
                ok = False
        if ok:
            out.append(v)
    return out


def ret_value(ps, text, v):
    """numeric value returned on the path when `text` has value v"""
    r = ret(ps)
    if r == text:
        return v
    try:
        return int(r)
    except ValueError:
        return r


def args_of(ev):
    return [show(a) for a in ev.e.a[1]]


# ---------------------------------------------------------------------------

def every_path_calls(u, fn, name, argtext):
    """every returning path of fn has the call name(argtext...)"""
    ss = returning(S(u, fn))
    bad = [ps for ps in ss if not any(args_of(e)[:len(argtext)] == argtext
                                      for e in calls(ps, name))]
    return bool(ss) and not bad


def tuple_of(req='required'):
    return 'PySequence_Tuple(%s)' % req


UNCACHED = {'_lookup': ('str_uncached_lookup', '_cache', True),
            '_lookupAll': ('str_uncached_lookupAll', '_mcache', False),
            '_subscriptions': ('str_uncached_subscriptions', '_scache', False)}


def cache_protocol(u, fn):
    """problems with the memoisation protocol of _lookup/_lookupAll/
    _subscriptions; returns (problems, stats)."""
    meth, field, named = UNCACHED[fn]
    T = tuple_of()
    probs = []
    kinds = set()
    if named:
        container = ('_getcache(self, provided, name)',)
    else:
        container = ('_subcache(self->%s, provided)' % field,)
    for ps in returning(S(u, fn)):
        gets = [e for e in calls(ps, 'PyDict_GetItem') if args_of(e)[0] in container]
        sets = calls(ps, 'PyDict_SetItem')
        unc = [e for e in calls(ps, 'PyObject_CallMethodObjArgs')
               if len(args_of(e)) > 1 and args_of(e)[1].startswith('str_uncached')]
        if not gets:
            if sets or unc:
                probs.append('fills or computes without probing the cache')
            if ret(ps) != 'NULL':
                probs.append('returns `%s` without probing the cache' % ret(ps)[:50])
            continue
        if len(gets) != 1:
            probs.append('probes the cache %d times' % len(gets))
            continue
        g = gets[0]
        cont, key = args_of(g)
        if named:
            one = fact(ps, '(PyTuple_GET_SIZE(%s) == 1)' % T)
            want_key = 'PyTuple_GET_ITEM(%s, 0)' % T if one else T
            if one is None:
                probs.append('key not chosen by the number of required specs')
        else:
            want_key = T
        if key != want_key:
            probs.append('probes with key `%s` (required `%s`)' % (key[:60], want_key))
        hit = fact(ps, show(g.e))
        want_args = ['self', meth, T, 'provided'] + (['name'] if named else []) + ['NULL']
        if hit is None:
            probs.append('probe result not tested')
        elif hit:
            kinds.add('hit')
            if sets or unc:
                probs.append('a hit still computes or stores')
        else:
            if len(unc) != 1 or args_of(unc[0]) != want_args:
                probs.append('miss does not call self.%s(%s): %s' % (
                    meth[4:], ', '.join(want_args[2:-1]),
                    [show(e.e)[:80] for e in unc]))
                continue
            U = show(unc[0].e)
            computed = fact(ps, U)
            if computed is None:
                probs.append('result of the uncached call not tested')
            elif not computed:
                kinds.add('error')
                if sets:
                    probs.append('stores after a failed uncached call')
                if ret(ps) not in ('NULL', U):
                    probs.append('failed uncached call does not return NULL')
            else:
                if len(sets) != 1 or args_of(sets[0]) != [cont, key, U]:
                    probs.append('value stored in the cache is not exactly what '
                                 'self.%s returned, under the probed key: %s'
                                 % (meth[4:], [show(e.e)[:90] for e in sets]))
                    continue
                stored = fact(ps, '(%s < 0)' % show(sets[0].e))
                if stored is None:
                    probs.append('store status not tested')
                elif stored:
                    kinds.add('store-error')
                    if ret(ps) != 'NULL':
                        probs.append('failed store does not return NULL')
                else:
                    kinds.add('miss')
    return probs, kinds


def lookup_result(u, fn='_lookup'):
    """_lookup: None -> default only when a default was given, applied to the
    value probed/computed (never stored)."""
    probs = []
    kinds = set()
    for ps in returning(S(u, fn)):
        r = ret(ps)
        if r == 'NULL':
            continue
        gets = [e for e in calls(ps, 'PyDict_GetItem')]
        unc = [e for e in calls(ps, 'PyObject_CallMethodObjArgs')
               if len(args_of(e)) > 1 and args_of(e)[1].startswith('str_uncached')]
        R = show(unc[0].e) if unc else (show(gets[0].e) if gets else None)
        if R is None:
            probs.append('returns `%s` without a lookup' % r[:40])
            continue
        none = fact(ps, '(%s == Py_None)' % R)
        dflt = fact(ps, 'default_')
        # every completion of the tests the path did not need must agree
        wants = set()
        for n_ in ([none] if none is not None else [True, False]):
            for d_ in ([dflt] if dflt is not None else [True, False]):
                wants.add('default_' if (n_ and d_) else R)
        if len(wants) != 1:
            probs.append('result not compared with None' if none is None
                         else 'None result: default not consulted')
            continue
        want = wants.pop()
        kinds.add('default' if want == 'default_' else 'value')
        if r != want:
            probs.append('%s: returns `%s`' % (
                'None with a default' if want == 'default_' else 'a value/None without default',
                r[:60]))
        for e in calls(ps, 'PyDict_SetItem'):
            if 'default_' in args_of(e)[2]:
                probs.append('the caller\'s default is stored in the cache')
    if not probs and kinds != {'default', 'value'}:
        probs.append('path kinds %s' % sorted(kinds))
    return probs


def name_guard(u, fn, first_uses):
    probs = []
    seen_reject = False
    for ps in returning(S(u, fn)):
        n = fact(ps, 'name')
        chk = fact(ps, 'PyUnicode_Check(name)')
        used = [e for e in work(ps) if e.name in first_uses]
        if n and chk is False:
            seen_reject = True
            errs = [e for e in calls(ps, 'PyErr_SetString')
                    if args_of(e)[0] == 'PyExc_ValueError']
            if not errs or ret(ps) != 'NULL':
                probs.append('non-str name does not raise ValueError and return NULL')
            if used:
                probs.append('non-str name reaches %s' % used[0].name)
        elif used and not (n is False or chk):
            probs.append('%s reached without the name check' % used[0].name)
    if not seen_reject:
        probs.append('no rejecting path for a non-str name')
    return probs


def verify_guard(u, fn, worker, want_args):
    probs = []
    n = 0
    V = '(_verify(self) < 0)'
    for ps in returning(S(u, fn)):
        w = calls(ps, worker)
        v = fact(ps, V)
        if w:
            n += 1
            if v is not False:
                probs.append('%s called without a successful _verify(self)' % worker)
            else:
                vi = [i for i, e in enumerate(ps.events) if e.kind == 'call' and e.name == '_verify']
                if not vi or vi[0] > ps.index(w[0]):
                    probs.append('_verify(self) after the call of %s' % worker)
            if args_of(w[0]) != want_args:
                probs.append('%s(%s) (required order %s)' % (
                    worker, ', '.join(args_of(w[0])), want_args))
        if v is True and (w or ret(ps) != 'NULL'):
            probs.append('a failing _verify does not return NULL at once')
    if not n:
        others = sorted({e.name for ps in S(u, fn) for e in work(ps) if e.name})
        probs.append('does not call its worker %s (calls %s): the generation '
                     'check is bypassed' % (worker, others))
    return probs


def verify_semantics(u):
    """_verify: returns 0 without calling changed() only when the stored
    generations equal the current generations of the stored registries."""
    probs = []
    kinds = set()
    chg = lambda ps: [e for e in calls(ps, 'PyObject_CallMethodObjArgs')
                      if args_of(e)[1:2] == ['strchanged']]
    for ps in returning(S(u, '_verify')):
        cmpc = calls(ps, 'PyObject_RichCompareBool')
        ro, gen = fact(ps, 'self->_verify_ro'), fact(ps, 'self->_verify_generations')
        r = ret(ps)
        if not cmpc:
            # no comparison: either a snapshot is missing (must call changed),
            # or reading the generations failed (-1)
            if chg(ps):
                kinds.add('no-snapshot')
                if not (ro is False or gen is False):
                    pass
                continue
            gt = [e for e in calls(ps, '_generations_tuple')]
            if gt and fact(ps, show(gt[0].e)) is False and r == '-1':
                kinds.add('error')
                continue
            probs.append('returns `%s` without comparing generations or calling '
                         'changed()' % r)
            continue
        c = cmpc[0]
        a, b, op = args_of(c)
        sides = {a, b}
        if 'self->_verify_generations' not in sides or \
                '_generations_tuple(self->_verify_ro)' not in sides:
            probs.append('compares `%s` with `%s`' % (a[:50], b[:50]))
            continue
        if op not in ('2', '3'):
            probs.append('comparison operator %s' % op)
            continue
        equal_val = 0 if op == '3' else 1
        C = show(c.e)
        vals = int_values(ps, C)
        for v in vals:
            if v == -1:
                if ret_value(ps, C, v) != -1:
                    probs.append('comparison error not propagated')
                kinds.add('error')
            elif v == equal_val:
                kinds.add('current')
                if chg(ps):
                    probs.append('calls changed() although nothing changed')
                elif ret_value(ps, C, v) != 0:
                    probs.append('unchanged generations return %s' % ret_value(ps, C, v))
            else:
                kinds.add('stale')
                if not chg(ps):
                    probs.append('stale generations are accepted without '
                                 'calling changed() (returns `%s`)' % r)
    if not probs and not {'current', 'stale', 'no-snapshot'} <= kinds:
        probs.append('path kinds %s' % sorted(kinds))
    return probs


def clear_audit(ps_list, accepted):
    """PyErr_Clear() events not justified by an AttributeError match or an
    accepted idiom"""
    bad = []
    n = 0
    for ps in ps_list:
        for i, e in enumerate(ps.events):
            if e.kind != 'call' or e.name != 'PyErr_Clear':
                continue
            n += 1
            failed = last_failed_call(ps, i)
            fpos = max([p for k, t, p in ps.order if k == failed and p <= i] or [0])
            guard = [p for k, t, p in ps.order
                     if k == 'PyErr_ExceptionMatches(PyExc_AttributeError)' and t
                     and fpos <= p <= i]
            if guard:
                continue
            if failed and failed.startswith('PyObject_GetItem(') and \
                    re.search(r', str__\w+\)$', failed) and 'getitem-keyerror' in accepted:
                continue
            nxt = [x for x in ps.events[i + 1:] if x.kind == 'call' and x.name not in NOISE]
            if nxt and nxt[0].name in accepted:
                continue
            bad.append('line %s: PyErr_Clear() after `%s` failed'
                       % (e.node.line if e.node is not None else '?', (failed or '?')[:60]))
    return sorted(set(bad)), n


def generations_tuple(u):
    """_generations_tuple(ro): a new tuple of PyTuple_GET_SIZE(ro) slots; the
    generation of ro[i] is stored at i; the tuple is returned only when the
    index ran past the end; a failing attribute read returns NULL."""
    probs = []
    kinds = set()
    L = 'PyTuple_GET_SIZE(ro)'
    T = 'PyTuple_New(%s)' % L
    for ps in returning(S(u, '_generations_tuple')):
        r = ret(ps)
        new = fact(ps, T)
        if new is None:
            probs.append('result tuple is not PyTuple_New(PyTuple_GET_SIZE(ro))')
            continue
        if not new:
            if r != 'NULL':
                probs.append('allocation failure returns %s' % r)
            continue
        gets = calls(ps, 'PyObject_GetAttr')
        sets = calls(ps, 'PyTuple_SET_ITEM')
        tests = [(k, t) for k, t, p in ps.order if k.endswith('< %s)' % L)]
        if not tests:
            probs.append('no bound test against the size of ro')
            continue
        want = ['(0 < %s)' % L, '(1 < %s)' % L]
        # the same bound may be tested again (after the loop); what counts is
        # the sequence of distinct tests
        seq = []
        for k, t in tests:
            if not seq or seq[-1] != k:
                seq.append(k)
        if seq != want[:len(seq)]:
            probs.append('bound tests %s (required index 0, 1, ... against the size '
                         'of ro)' % [k[:30] for k, t in tests])
        if gets:
            if len(gets) != 1 or args_of(gets[0]) != ['PyTuple_GET_ITEM(ro, 0)', 'str_generation']:
                probs.append('reads %s' % [show(g.e)[:60] for g in gets])
                continue
            G = show(gets[0].e)
            got = fact(ps, G)
            if got is False:
                kinds.add('error')
                if r != 'NULL' or sets:
                    probs.append('failed generation read: returns %s' % r[:30])
                continue
            if len(sets) != 1 or args_of(sets[0]) != [T, '0', G]:
                probs.append('generation of ro[i] not stored at i: %s'
                             % [show(x.e)[:70] for x in sets])
                continue
            kinds.add('filled')
        else:
            kinds.add('empty')
            if sets:
                probs.append('stores without reading a generation')
        if r != 'NULL':
            if r != T:
                probs.append('returns `%s`' % r[:50])
            if tests[-1][1]:
                probs.append('returns before the index ran past the end')
    if not probs and kinds != {'error', 'filled', 'empty'}:
        probs.append('path kinds %s' % sorted(kinds))
    return probs


# ---------------------------------------------------------------------------
# getObjectSpecification: what both twins return (C10 F10 / C01 R01.7)

def object_specification_twins(rep, rule, u, dmod):
    """both twins: the object's own __provides__ when it is a specification;
    else implementedBy(ob.__class__) - the class the object *reports*
    (ob.__class__, an attribute read that proxies and descriptors answer),
    never type(ob); _empty only when there is no __class__"""
    import ast as _ast
    from ..pyfront import find_def
    from ..sympath import summaries as pys, normal
    from .sem import nt
    PROV = 'PyObject_GetAttr(ob, str__provides__)'
    CLS = 'PyObject_GetAttr(ob, str__class__)'
    probs = []
    kinds = set()
    for ps in returning(S(u, 'getObjectSpecification')):
        r = ret(ps)
        if r == 'NULL':
            continue
        if r == PROV:
            kinds.add('own')
            tests = [e for e in calls(ps) if e.name in ('PyObject_IsInstance',
                                                         'PyObject_TypeCheck')
                     and args_of(e)[:1] == [PROV]]
            okspec = False
            for e in tests:
                vals = int_values(ps, repr(e))
                if vals and all(v > 0 for v in vals):
                    okspec = True
            if not okspec:
                probs.append('returns __provides__ without testing that it is a '
                             'specification')
        elif r == 'implementedBy(module, %s)' % CLS:
            kinds.add('class')
            if ps.facts.get(CLS) is not True:
                probs.append('implementedBy of a failed __class__ read')
        elif r.endswith(('->empty', '.empty')):
            kinds.add('empty')
            if ps.facts.get(CLS) is not False:
                probs.append('returns the empty declaration although __class__ was '
                             'not found missing')
        else:
            probs.append('returns `%s` (required: own __provides__, or implementedBy('
                         'ob.__class__))' % r[:70])
    if kinds != {'own', 'class', 'empty'}:
        probs.append('result kinds seen: %s' % sorted(kinds))
    rep.check(rule, 'getObjectSpecification', not probs,
              'C: own specification, else implementedBy(module, getattr(ob, '
              '"__class__")), else empty' if not probs else
              {'problems': sorted(set(probs))[:3]}, construct='result-kinds', config='C')
    f = find_def(dmod, 'getObjectSpecification')
    probs = []
    kinds = set()
    for ps in normal(pys(f)):
        r = nt(ps.ret)
        if r in ('ob.__provides__', "getattr(ob, '__provides__', None)"):
            kinds.add('own')
            if ps.facts.get('isinstance(%s, SpecificationBase)' % r) is not True:
                probs.append('returns __provides__ without testing that it is a '
                             'specification')
        elif r == 'implementedBy(ob.__class__)':
            kinds.add('class')
        elif r == '_empty':
            kinds.add('empty')
            if ps.facts.get('EXCEPT(AttributeError)') is not True:
                probs.append('returns _empty although __class__ was found')
        elif r == "implementedBy(getattr(ob, '__class__', None))":
            probs.append('a missing __class__ is passed on as None')
        else:
            probs.append('returns `%s`' % r[:70])
    if kinds != {'own', 'class', 'empty'}:
        probs.append('result kinds seen: %s' % sorted(kinds))
    rep.check(rule, 'declarations.getObjectSpecification', not probs,
              'Python: own specification, else implementedBy(ob.__class__), else _empty'
              if not probs else {'problems': sorted(set(probs))[:3]},
              construct='result-kinds', node=f)


def descr_get_owner(rep, rule, u):
    """every function installed in a tp_descr_get slot: the owner parameter is
    NULL when __get__ is called with one argument (or with None), the instance
    parameter is NULL on class access; never both.  On every path a bare use of
    either as a call argument must follow a test that makes it non-NULL."""
    import re as _re
    from ..cfront import C_REL
    from .cside import ccheck
    src = rep.repo.source(C_REL) if hasattr(rep.repo, 'source') else ''
    names = sorted(set(_re.findall(r'Py_tp_descr_get\s*,\s*(\w+)', src)) |
                   set(_re.findall(r'\.tp_descr_get\s*=\s*(?:\(descrgetfunc\)\s*)?(\w+)',
                                   src)))
    rep.require(len(names) >= 2, 'tp_descr_get slot functions found: %s' % names)
    for fn in names:
        f = u.func(fn)
        ps_ = [p for p, t in f.params]
        if len(ps_) != 3:
            ccheck(rep, rule, fn, False, {'problems': ['signature %s' % ps_]},
                   construct='owner-null')
            continue
        inst, owner = ps_[1], ps_[2]
        probs = []
        n = 0
        for ps in returning(S(u, fn)):
            for who, other in ((owner, inst), (inst, owner)):
                known = ps.fact(who) is True or ps.fact(other) is False
                for e in ps.calls():
                    args = [show(a) for a in (e.e.a[1] if e.e.k == 'call' else [])
                            if a is not None]
                    if who in args:
                        n += 1
                        # position of the establishing fact must precede the call
                        ok = False
                        for key, truth, pos in ps.order:
                            if pos <= ps.index(e) and ((key == who and truth) or
                                                       (key == other and not truth)):
                                ok = True
                        if not ok:
                            probs.append('`%s` is passed to %s although it may be NULL '
                                         '(%s)' % (who, show(e.e)[:60],
                                                   '__get__(inst) / __get__(inst, None)'
                                                   if who == owner else 'class access'))
        ccheck(rep, rule, fn, not probs,
               'the instance and owner arguments are only handed on after a test '
               'that establishes them non-NULL (%d uses)' % n if not probs else
               {'problems': sorted(set(probs))[:3]}, construct='owner-null')


def hook_walk(rep, rule, u):
    """walks over the module's adapter_hooks LIST from C: hooks are arbitrary
    Python code and may change the list while the walk is running (the Python
    reference iterates the live list).  The index must therefore be bounded by
    the list's CURRENT size at every step, and the hook must be held
    (Py_INCREF) across its own call."""
    from ..cfront import calls as _calls_in, c_assigned
    from ..cown import RUNS_PYTHON
    from .cside import ccheck
    GET = ('PyList_GET_ITEM', 'PyTuple_GET_ITEM', 'PyList_GetItem')
    SIZE = ('PyList_GET_SIZE', 'PyList_Size', 'Py_SIZE', 'PyTuple_GET_SIZE')
    n_sites = 0
    for fname, f in sorted(u.funcs.items()):
        g = ccfg(f)
        lists = set()
        for n in g.nodes:
            if n.e is None:
                continue
            for x in n.e.walk():
                if x.k == 'assign' and x.a[2] is not None and x.a[2].k == 'call' and \
                        x.a[2].a[0] == '_get_adapter_hooks' and x.a[1].k == 'var':
                    lists.add(x.a[1].a[0])
                if x.k == 'decl' and x.a[2] is not None and x.a[2].k == 'call' and \
                        x.a[2].a[0] == '_get_adapter_hooks':
                    lists.add(x.a[0])
        if not lists:
            continue
        probs = []
        for n in g.nodes:
            if n.e is None:
                continue
            for c in _calls_in(n.e):
                if c.a[0] not in GET or not c.a[1] or c.a[1][0] is None or \
                        c.a[1][0].k != 'var' or c.a[1][0].a[0] not in lists:
                    continue
                n_sites += 1
                L = c.a[1][0].a[0]
                idx = c.a[1][1]
                ivars = {x.a[0] for x in idx.walk() if x.k == 'var'} if idx is not None else set()
                # (1) some test bounds the index by a size read in the test itself
                fresh = False
                stale = []
                for t in g.nodes:
                    if t.kind != 'test' or t.e is None:
                        continue
                    tv = {x.a[0] for x in t.e.walk() if x.k == 'var'}
                    if not (tv & ivars):
                        continue
                    sz = [cc for cc in _calls_in(t.e) if cc.a[0] in SIZE and cc.a[1]
                          and cc.a[1][0] is not None and cc.a[1][0].k == 'var'
                          and cc.a[1][0].a[0] == L]
                    if sz:
                        fresh = True
                    else:
                        stale.append(show(t.e)[:40])
                if not fresh:
                    probs.append('the index into `%s` is bounded by %s, a size read before '
                                 'the hooks ran: a hook that shortens the list makes '
                                 '%s read past its end' % (L, stale[:1] or 'nothing', c.a[0]))
                # (2) the item is held across the callback
                direct = [cc for cc in _calls_in(n.e) if cc.a[0] in RUNS_PYTHON and
                          any(a is c or (a is not None and c in list(a.walk()))
                              for a in cc.a[1])]
                if direct:
                    probs.append('the hook taken from `%s` is passed to %s as a borrowed '
                                 'reference (the list may drop it while it runs)'
                                 % (L, direct[0].a[0]))
                else:
                    held = [x.a[1].a[0] for x in n.e.walk() if x.k == 'assign'
                            and x.a[2] is c and x.a[1].k == 'var'] + \
                        ([n.e.a[0]] if n.e.k == 'decl' and n.e.a[2] is c else [])
                    for h in held:
                        inc = lambda m, h=h: any(
                            cc.a[1] and cc.a[1][0] is not None and cc.a[1][0].k == 'var'
                            and cc.a[1][0].a[0] == h
                            for cc in node_calls(m, 'Py_INCREF') + node_calls(m, 'Py_XINCREF'))
                        users = [m for m in g.nodes if m.e is not None and any(
                            cc.a[0] in RUNS_PYTHON and any(
                                a is not None and a.k == 'var' and a.a[0] == h
                                for a in cc.a[1]) for cc in _calls_in(m.e))]
                        for m in users:
                            if not g.must_pass_after(n, inc, target=m):
                                probs.append('the hook `%s` is called without holding a '
                                             'reference to it' % h)
        ccheck(rep, rule, fname, not probs,
               'the walk over adapter_hooks re-reads the list size at every step and '
               'holds each hook across its call' if not probs else
               {'problems': sorted(set(probs))[:3]}, construct='hook-walk')
    rep.require(n_sites >= 1, 'no indexed read of adapter_hooks found in the C code')


def adapt_dispatch(rep, rule, u, imod):
    """Virtual dispatch parity of __adapt__: the Python reference calls methods
    ON self (today `self.providedBy(obj)`), which an interface may override
    with @interfacemethod.  For each such method the C twin must either
    dispatch as well (a method call on self) or - when it inlines the default
    implementation - the class writer (InterfaceClass.__new__) must route every
    interface overriding that method to the Python `__adapt__`: on every path
    where '<m>' is among the interface methods and no `__adapt__` is given or
    inherited, it installs `InterfaceBasePy.__adapt__` among them (which then
    also sets the flag that makes the C __call__ use it, C14 R14.3)."""
    import ast
    from ..pyfront import find_def, methods_of
    from ..sympath import summaries as _S, normal as _N
    from .sem import nt as _nt
    from .cside import ccheck
    ib = find_def(imod, 'InterfaceBase')
    ad = methods_of(ib)['__adapt__']
    virt = set()
    for ps in _S(ad, normal_only=False):
        for e in ps.events:
            if e.kind == 'call' and isinstance(e.r, ast.Call) and \
                    isinstance(e.r.func, ast.Attribute) and _nt(e.r.func.value) == 'self':
                virt.add(e.r.func.attr)
    rep.require(bool(virt), 'InterfaceBase.__adapt__ calls no method on self '
                '(providedBy confirmed by hand)')
    cdisp = set()
    for n in ccfg(u.func('IB__adapt__')).nodes:
        for c in node_calls(n):
            if c.a[0] in ('PyObject_CallMethodObjArgs', 'PyObject_CallMethod',
                          'PyObject_CallMethodOneArg', 'PyObject_CallMethodNoArgs') \
                    and c.a[1] and c.a[1][0] is not None and c.a[1][0].k == 'var' \
                    and c.a[1][0].a[0] == 'self' and len(c.a[1]) > 1:
                m = c.a[1][1]
                if m is not None and m.k == 'var':
                    cdisp.add(re.sub(r'^str_?', '', m.a[0]))
                elif m is not None and m.k == 'str':
                    cdisp.add(m.a[0])
    new = find_def(imod, 'InterfaceClass.__new__')
    for m in sorted(virt):
        if m in cdisp:
            ccheck(rep, rule, 'IB__adapt__', True,
                   'self.%s(...) is a method call in C too' % m,
                   construct='devirtualised:' + m)
            continue
        probs = []
        looked = 0
        for ps in _N(_S(new)):
            has = None
            for c, t, p in ps.order:
                if c.startswith("'%s' in " % m):
                    has = t
            if has is None:
                continue
            looked += 1
            own = inh = None
            for c, t, p in ps.order:
                if c.startswith("'__adapt__' in "):
                    own = t if own is None else own
                if c.startswith("getattr(cls, '_CALL_CUSTOM_ADAPT'") or \
                        c == 'cls._CALL_CUSTOM_ADAPT' or \
                        c.startswith("hasattr(cls, '_CALL_CUSTOM_ADAPT'"):
                    inh = t if inh is None else inh
            put = [e for e in ps.stores() if isinstance(e.r, ast.Subscript)
                   and _nt(e.r.slice) == "'__adapt__'"]
            flag = [e for e in ps.stores() if isinstance(e.r, ast.Subscript)
                    and _nt(e.r.slice) == "'_CALL_CUSTOM_ADAPT'"]
            if has and own is False and inh is False:
                if len(put) != 1 or _nt(put[0].val) not in (
                        'InterfaceBasePy.__adapt__', "InterfaceBasePy.__dict__['__adapt__']"):
                    probs.append("an interface overriding %s (no __adapt__ of its own or "
                                 "inherited) keeps the C __adapt__, which inlines the "
                                 "default %s: stores %s" % (m, m, [_nt(e.val)[:40] for e in put]))
                elif len(flag) != 1:
                    probs.append('the Python __adapt__ is installed but the flag that '
                                 'makes the C __call__ use it is not set')
            elif put:
                # replacing __adapt__ is only right once the path has ESTABLISHED that
                # the method is overridden and no custom __adapt__ is given or inherited
                probs.append('__adapt__ is replaced although %s is not overridden / an '
                             '__adapt__ is given or inherited / that was not tested '
                             '(has=%s own=%s inherited=%s)' % (m, has, own, inh))
        if not looked:
            probs.append('IB__adapt__ inlines the default %s (no method call on self), and '
                         'InterfaceClass.__new__ never looks whether an interface overrides '
                         '%s: with the C accelerator the override is ignored by __adapt__ and '
                         '__call__, the Python reference honours it' % (m, m))
        ccheck(rep, rule, 'IB__adapt__', not probs,
               'the C twin inlines the default %s; interfaces overriding it are routed '
               'to the Python __adapt__ by InterfaceClass.__new__' % m
               if not probs else {'problems': sorted(set(probs))[:3]},
               construct='devirtualised:' + m)
