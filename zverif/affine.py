"""Affine index evaluator: integer locals as affine forms over named
symbols, sequence locals as slices [lo:hi) of a named base sequence.
Evaluated along one CFG path at a time (path-indexed)."""
import ast

from .core import AnalysisError, norm_src


class Aff:
    """sum(coeff * sym) + const"""
    __slots__ = ('t',)

    def __init__(self, terms=None, const=0):
        t = dict(terms or {})
        t[1] = t.get(1, 0) + const
        self.t = {k: v for k, v in t.items() if v != 0 or k == 1}
        self.t.setdefault(1, 0)

    @staticmethod
    def sym(name):
        return Aff({name: 1})

    @staticmethod
    def const(c):
        return Aff({}, c)

    def __add__(self, o):
        t = dict(self.t)
        for k, v in o.t.items():
            t[k] = t.get(k, 0) + v
        return Aff(t)

    def __neg__(self):
        return Aff({k: -v for k, v in self.t.items()})

    def __sub__(self, o):
        return self + (-o)

    def __eq__(self, o):
        return isinstance(o, Aff) and self.norm() == o.norm()

    def __hash__(self):
        return hash(tuple(sorted(self.norm().items(), key=str)))

    def norm(self):
        return {k: v for k, v in self.t.items() if v != 0}

    def is_const(self):
        return all(k == 1 for k in self.norm())

    def __repr__(self):
        parts = []
        for k, v in sorted(self.norm().items(), key=lambda kv: str(kv[0])):
            if k == 1:
                parts.append(str(v))
            elif v == 1:
                parts.append(str(k))
            elif v == -1:
                parts.append('-' + str(k))
            else:
                parts.append('%d*%s' % (v, k))
        return ' + '.join(parts).replace('+ -', '- ') or '0'


class Slice:
    """base[lo:hi]; hi None = to the end."""
    __slots__ = ('base', 'lo', 'hi')

    def __init__(self, base, lo=None, hi=None):
        self.base = base
        self.lo = lo if lo is not None else Aff.const(0)
        self.hi = hi

    def __eq__(self, o):
        return isinstance(o, Slice) and (self.base, self.lo, self.hi) == (o.base, o.lo, o.hi)

    def __repr__(self):
        return '%s[%s:%s]' % (self.base, self.lo, self.hi if self.hi is not None else '')


class Elem:
    """base[index]"""
    __slots__ = ('base', 'index')

    def __init__(self, base, index):
        self.base = base
        self.index = index

    def __eq__(self, o):
        return isinstance(o, Elem) and (self.base, self.index) == (o.base, o.index)

    def __repr__(self):
        return '%s[%s]' % (self.base, self.index)


class Unknown:
    def __init__(self, why):
        self.why = why

    def __repr__(self):
        return '?(%s)' % self.why


class Zip:
    def __init__(self, a, b):
        self.a, self.b = a, b

    def __repr__(self):
        return 'zip(%r, %r)' % (self.a, self.b)


class AffEval:
    """leaf(node, env) -> value|None resolves package specific leaves."""

    def __init__(self, leaf):
        self.leaf = leaf
        self.rel = []      # (kind, relative affine form, source) of every
        #                    index / slice bound applied to a sequence value

    def ev(self, n, env):
        v = self.leaf(n, env, self)
        if v is not None:
            return v
        if isinstance(n, ast.Constant):
            if isinstance(n.value, bool) or n.value is None:
                return n.value
            if isinstance(n.value, int):
                return Aff.const(n.value)
            return n.value
        if isinstance(n, ast.Name):
            return env.get(n.id, Unknown('name ' + n.id))
        if isinstance(n, ast.BinOp) and isinstance(n.op, (ast.Add, ast.Sub)):
            a, b = self.ev(n.left, env), self.ev(n.right, env)
            if isinstance(a, Aff) and isinstance(b, Aff):
                return a + b if isinstance(n.op, ast.Add) else a - b
            return Unknown(norm_src(n))
        if isinstance(n, ast.UnaryOp) and isinstance(n.op, ast.USub):
            a = self.ev(n.operand, env)
            return -a if isinstance(a, Aff) else Unknown(norm_src(n))
        if isinstance(n, ast.Subscript):
            base = self.ev(n.value, env)
            if not isinstance(base, Slice):
                return Unknown(norm_src(n))
            s = n.slice
            if isinstance(s, ast.Slice):
                if s.step is not None:
                    return Unknown(norm_src(n))
                lo = self.ev(s.lower, env) if s.lower is not None else Aff.const(0)
                hi = self.ev(s.upper, env) if s.upper is not None else None
                if not isinstance(lo, Aff) or (hi is not None and not isinstance(hi, Aff)):
                    return Unknown(norm_src(n))
                if s.lower is not None:
                    self.rel.append(('lower bound', lo, norm_src(n)))
                if hi is not None:
                    self.rel.append(('upper bound', hi, norm_src(n)))
                return Slice(base.base, base.lo + lo,
                             (base.lo + hi) if hi is not None else base.hi)
            idx = self.ev(s, env)
            if isinstance(idx, Aff):
                self.rel.append(('index', idx, norm_src(n)))
                return Elem(base.base, base.lo + idx)
            return Unknown(norm_src(n))
        if isinstance(n, ast.Call) and isinstance(n.func, ast.Name):
            if n.func.id == 'zip' and len(n.args) == 2:
                return Zip(self.ev(n.args[0], env), self.ev(n.args[1], env))
            if n.func.id in ('dict', 'tuple', 'list') and len(n.args) == 1:
                return self.ev(n.args[0], env)
            if n.func.id in ('dict',) and not n.args:
                return {}
        if isinstance(n, ast.Dict) and not n.keys:
            return {}
        if isinstance(n, ast.BoolOp) and isinstance(n.op, ast.Or) and len(n.values) == 2:
            # `x or ()` : the left value when present, else empty -> same slice
            a = self.ev(n.values[0], env)
            return a
        return Unknown(norm_src(n)[:60])


def provably_nonneg(form, constraints, max_coeff=2):
    """is `form` >= 0 whenever every form in `constraints` is >= 0?  Decided by
    searching a representation form = sum(c_i * g_i) + const, c_i in
    0..max_coeff, const >= 0 (enough for the index arithmetic analysed here).
    Duplicate and constant constraints are dropped first."""
    import itertools
    uniq = []
    for g in constraints:
        if g.is_const() or any(g == h for h in uniq):
            continue
        uniq.append(g)
    syms = sorted({k for k in form.norm() if k != 1} |
                  {k for g in uniq for k in g.norm() if k != 1}, key=str)
    # only constraints that mention a symbol of the form (transitively)
    need = {k for k in form.norm() if k != 1}
    changed = True
    while changed:
        changed = False
        for g in uniq:
            gs = {k for k in g.norm() if k != 1}
            if gs & need and not gs <= need:
                need |= gs
                changed = True
    uniq = [g for g in uniq if {k for k in g.norm() if k != 1} & need]
    if len(uniq) > 9:
        uniq = uniq[:9]

    def vec(f):
        n = f.norm()
        return [n.get(k, 0) for k in syms] + [n.get(1, 0)]
    fv = vec(form)
    gv = [vec(g) for g in uniq]
    nsym = len(syms)
    for cs in itertools.product(range(max_coeff + 1), repeat=len(gv)):
        rest = list(fv)
        for c, g in zip(cs, gv):
            if c:
                for i in range(nsym + 1):
                    rest[i] -= c * g[i]
        if all(x == 0 for x in rest[:nsym]) and rest[nsym] >= 0:
            return True
    return False
