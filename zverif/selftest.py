"""Thorough tier: the quick rules on /repo plus the self-test battery.

* every seeded defect under /verif/seeded/<name>/ whose meta.json lists this
  property in "caught_by" is applied to a scratch copy of the sources (outside
  /repo and /verif, removed afterwards) and the check must report a VIOLATION
  there (exit 1);
* every behaviour-preserving refactor twin under /verif/selftest/twins/ that
  names this property must leave the check silent (exit 0).

Nothing from the copies is executed: the analysers are pointed at them with
--root.  The exit status is the verdict on /repo; a self-test failure turns an
otherwise clean run into exit 2.
"""
import json
import os
import shutil
import subprocess
import sys
import tempfile
import time
from concurrent.futures import ThreadPoolExecutor

from .core import VERIF


def _variants(prop):
    muts, twins = [], []
    sd = os.path.join(VERIF, 'seeded')
    if os.path.isdir(sd):
        for name in sorted(os.listdir(sd)):
            mp = os.path.join(sd, name, 'meta.json')
            pp = os.path.join(sd, name, 'patch.diff')
            if not (os.path.exists(mp) and os.path.exists(pp)):
                continue
            with open(mp) as f:
                meta = json.load(f)
            if prop in meta.get('caught_by', []):
                muts.append((name, pp, meta))
    td = os.path.join(VERIF, 'selftest', 'twins')
    if os.path.isdir(td):
        for name in sorted(os.listdir(td)):
            if not name.endswith('.diff'):
                continue
            mp = os.path.join(td, name[:-5] + '.json')
            meta = {}
            if os.path.exists(mp):
                with open(mp) as f:
                    meta = json.load(f)
            props = meta.get('properties')
            if props is None or prop in props:
                twins.append((name[:-5], os.path.join(td, name), meta))
    return muts, twins


def _run_variant(prop, root, patch):
    tmp = tempfile.mkdtemp(prefix='zvself_')
    try:
        dst = os.path.join(tmp, 'src', 'zope', 'interface')
        os.makedirs(os.path.dirname(dst))
        shutil.copytree(os.path.join(root, 'src', 'zope', 'interface'), dst,
                        ignore=shutil.ignore_patterns('*.so', '__pycache__',
                                                      'tests'))
        r = subprocess.run(['patch', '-p1', '-s', '-f', '-i', patch], cwd=tmp,
                           capture_output=True, text=True)
        if r.returncode != 0:
            return 'patch-failed', (r.stdout + r.stderr)[-200:]
        env = dict(os.environ, ZVERIF_NO_EVIDENCE='1')
        rr = subprocess.run([sys.executable, '-m', 'zverif.main', prop,
                             '--root', tmp, '--tier', 'quick'],
                            cwd=VERIF, capture_output=True, text=True, env=env)
        first = [l for l in rr.stdout.splitlines() if l.startswith('  rule')]
        return rr.returncode, (first[0].strip()[:200] if first else
                               rr.stdout.strip()[-200:])
    finally:
        shutil.rmtree(tmp, ignore_errors=True)


def thorough(prop, root, seed, quiet=False):
    from .main import run_one
    t0 = time.time()
    rc = run_one(prop, 'thorough', root, seed, quiet)
    muts, twins = _variants(prop)
    results = {'mutants': [], 'twins': []}
    jobs = [('m', n, p, m) for n, p, m in muts] + [('t', n, p, m) for n, p, m in twins]
    with ThreadPoolExecutor(16) as ex:
        outs = list(ex.map(lambda j: _run_variant(prop, root, j[2]), jobs))
    failed = []
    for (kind, name, patch, meta), (vrc, msg) in zip(jobs, outs):
        if kind == 'm':
            ok = vrc == 1
            results['mutants'].append({'name': name, 'killed': ok, 'rc': vrc,
                                       'first_report': msg,
                                       'breaks': meta.get('property')})
            if vrc == 'patch-failed':
                results['mutants'][-1]['note'] = ('patch no longer applies to the '
                                                  'current tree (not counted)')
            elif not ok:
                failed.append('seeded defect %s not reported (rc=%s)' % (name, vrc))
        else:
            ok = vrc == 0
            results['twins'].append({'name': name, 'silent': ok, 'rc': vrc,
                                     'report': '' if ok else msg})
            if vrc == 'patch-failed':
                results['twins'][-1]['note'] = 'patch no longer applies (not counted)'
            elif not ok:
                failed.append('refactor twin %s raised an alarm (rc=%s): %s'
                              % (name, vrc, msg))
    summary = {
        'mutants': len(results['mutants']),
        'killed': sum(1 for m in results['mutants'] if m['killed']),
        'twins': len(results['twins']),
        'silent': sum(1 for t in results['twins'] if t['silent']),
        'failed': failed,
        'details': results,
        'wall_s': round(time.time() - t0, 2),
    }
    evp = os.path.join(VERIF, 'evidence', prop + '.json')
    if os.path.exists(evp) and not os.environ.get('ZVERIF_NO_EVIDENCE'):
        with open(evp) as f:
            ev = json.load(f)
        ev['coverage']['selftest'] = summary
        ev['wall_s'] = round(time.time() - t0, 3)
        with open(evp, 'w') as f:
            json.dump(ev, f, indent=1, sort_keys=True)
    if not quiet:
        print('%s selftest: %d/%d seeded defects reported, %d/%d refactor twins '
              'silent' % (prop, summary['killed'], summary['mutants'],
                          summary['silent'], summary['twins']))
        for m in failed:
            print('SELFTEST-FAILURE property=%s %s' % (prop, m))
    if failed and rc == 0:
        print('ANALYSIS-ERROR property=%s self-test failed' % prop)
        return 2
    return rc
