"""Core of the zverif static-analysis framework.

Repo loading (never imports the analysed code), obligations, reports,
evidence files, known findings and exit codes.

Exit codes: 0 = every obligation holds (or is a listed known finding),
1 = VIOLATION lines printed, 2 = ANALYSIS-ERROR (the analysis itself could not
decide: vanished anchor, construct outside an evaluator's language, ...).
"""
import ast
import hashlib
import json
import os
import sys
import time

VERIF = os.path.dirname(os.path.dirname(os.path.abspath(__file__)))
DEFAULT_ROOT = os.environ.get('ZVERIF_ROOT', '/repo')
PKG_REL = 'src/zope/interface'


class AnalysisError(Exception):
    """The analysis cannot decide (never a pass, never a violation)."""


def norm_src(node):
    """Normalised source text of an AST node (position independent)."""
    if node is None:
        return 'None'
    if isinstance(node, list):
        return '; '.join(norm_src(n) for n in node)
    try:
        return ast.unparse(node)
    except Exception:  # pragma: no cover
        return ast.dump(node)


class Repo:
    """Parsed view of the package sources under ``root``."""

    def __init__(self, root=None):
        self.root = os.path.abspath(root or DEFAULT_ROOT)
        self.pkg = os.path.join(self.root, PKG_REL)
        if not os.path.isdir(self.pkg):
            raise AnalysisError('package directory not found: %s' % self.pkg)
        self._mods = {}
        self._src = {}
        self.files_parsed = []

    def path(self, rel):
        return os.path.join(self.pkg, rel)

    def source(self, rel):
        if rel not in self._src:
            p = self.path(rel)
            try:
                with open(p, encoding='utf-8') as f:
                    self._src[rel] = f.read()
            except OSError as e:
                raise AnalysisError('cannot read %s: %s' % (p, e))
        return self._src[rel]

    def module(self, rel):
        """ast.Module of ``rel`` (relative to the package dir), with
        ``.parent`` links and ``.relpath`` on every node."""
        if rel not in self._mods:
            src = self.source(rel)
            try:
                tree = ast.parse(src, filename=rel)
            except SyntaxError as e:
                raise AnalysisError('parse error in %s: %s' % (rel, e))
            tree.relpath = rel
            for parent in ast.walk(tree):
                for child in ast.iter_child_nodes(parent):
                    child.parent = parent
            tree.parent = None
            self._mods[rel] = tree
            self.files_parsed.append(rel)
        return self._mods[rel]

    def all_py(self, tests=False):
        out = []
        for d, dirs, files in os.walk(self.pkg):
            dirs.sort()
            if not tests and os.path.basename(d) == 'tests':
                dirs[:] = []
                continue
            for f in sorted(files):
                if f.endswith('.py'):
                    out.append(os.path.relpath(os.path.join(d, f), self.pkg))
        return out

    def digest(self):
        h = hashlib.sha256()
        for rel in sorted(self._src):
            h.update(rel.encode())
            h.update(self._src[rel].encode())
        return h.hexdigest()[:16]


def loc(node, mod=None):
    """file:line of a node (for diagnostics only; never used as a key)."""
    n = node
    rel = None
    while n is not None:
        rel = getattr(n, 'relpath', None)
        if rel:
            break
        n = getattr(n, 'parent', None)
    return '%s:%s' % (rel or (mod or '?'), getattr(node, 'lineno', '?'))


class Obligation:
    __slots__ = ('rule', 'site', 'config', 'ok', 'detail', 'construct',
                 'nontrivial', 'where')

    def __init__(self, rule, site, ok, detail, construct='', config='PY',
                 nontrivial=True, where=''):
        self.rule = rule
        self.site = site
        self.ok = bool(ok)
        self.detail = detail
        self.construct = construct
        self.config = config
        self.nontrivial = nontrivial
        self.where = where

    def key(self):
        return (self.rule, self.site, self.construct)

    def as_json(self):
        return {
            'rule': self.rule, 'site': self.site, 'config': self.config,
            'construct': self.construct, 'where': self.where,
            'verdict': 'holds' if self.ok else 'violated',
            'detail': self.detail,
        }


class Report:
    """Collects the obligations of one property check."""

    def __init__(self, prop, repo, tier='quick'):
        self.prop = prop
        self.repo = repo
        self.tier = tier
        self.obls = []
        self.rules = {}      # rule id -> description
        self.floors = {}     # rule id -> minimal number of obligations
        self.assumptions = []
        self.declined = []
        self.stats = {}
        self.t0 = time.time()
        self.info = []       # informational (never a violation)
        self.soft = []       # anchor shortfalls, fatal unless a violation explains them

    # -- declaring -----------------------------------------------------
    def rule(self, rid, text, floor=1):
        self.rules[rid] = text
        self.floors[rid] = floor

    def assume(self, text):
        if text not in self.assumptions:
            self.assumptions.append(text)

    def decline(self, text):
        self.declined.append(text)

    def note(self, text):
        self.info.append(text)

    def stat(self, key, n=1):
        self.stats[key] = self.stats.get(key, 0) + n

    # -- recording -----------------------------------------------------
    def check(self, rule, site, ok, detail, construct='', config='PY',
              node=None, nontrivial=True):
        if rule not in self.rules:
            raise AnalysisError('undeclared rule %s' % rule)
        where = loc(node) if node is not None else ''
        if not isinstance(detail, (str, dict, list)):
            detail = str(detail)
        o = Obligation(rule, site, ok, detail, construct or '', config,
                       nontrivial, where)
        self.obls.append(o)
        return o.ok

    def require(self, cond, msg):
        """Anchor requirement: failing it means the analysis is broken."""
        if not cond:
            raise AnalysisError(msg)
        return cond


    def require_soft(self, cond, msg):
        """Anchor count requirement evaluated at the end: a shortfall is an
        analysis error unless the run reports a violation (the deletion that
        caused the shortfall is then reported by the rule that misses it)."""
        if not cond:
            self.soft.append(msg)
        return cond


# ---------------------------------------------------------------------------
# known findings

def load_known():
    p = os.path.join(VERIF, 'known_findings.json')
    if not os.path.exists(p):
        return {'known': [], 'fixed': []}
    with open(p) as f:
        return json.load(f)


def finding_matches(entry, prop, o):
    if entry.get('property') != prop:
        return False
    if entry.get('rule') != o.rule:
        return False
    if entry.get('site') != o.site:
        return False
    if entry.get('construct', '') != (o.construct or ''):
        return False
    return True


# ---------------------------------------------------------------------------
# finishing a run

def finish(report, seed=0, level='other', extra_cov=None, quiet=False):
    """Write evidence, print verdict lines, return the exit code."""
    r = report
    # floors: a rule that matched fewer sites than confirmed by hand is an
    # analysis error, never a silent pass
    counts = {}
    for o in r.obls:
        counts[o.rule] = counts.get(o.rule, 0) + 1
    known = load_known()
    violated = [o for o in r.obls if not o.ok]
    new, listed = [], []
    for o in violated:
        hit = None
        for e in known.get('known', []):
            if finding_matches(e, r.prop, o):
                hit = e
                break
        (listed if hit else new).append((o, hit))
    # a shortfall is fatal unless the run reports a new violation: the
    # deletion that made an anchor vanish is then named by the rule that
    # misses it (exit 1 carries more information than exit 2)
    if not new:
        for rid, floor in r.floors.items():
            if any((not o.ok) and o.rule == rid for o in r.obls):
                continue
            if counts.get(rid, 0) < floor:
                raise AnalysisError(
                    'rule %s matched %d site(s), floor is %d (anchor vanished?)'
                    % (rid, counts.get(rid, 0), floor))
        if r.soft:
            raise AnalysisError(r.soft[0])
    outdir = os.path.join(VERIF, 'out')
    os.makedirs(outdir, exist_ok=True)
    lines = []
    for o, e in listed:
        lines.append('KNOWN-FINDING: property=%s rule=%s site=%s %s'
                     % (r.prop, o.rule, o.site, e.get('what', '')))
    for i, (o, _) in enumerate(new):
        wid = hashlib.sha1(repr(o.key()).encode()).hexdigest()[:10]
        wp = os.path.join(outdir, '%s_%s_%s.json' % (r.prop, o.rule, wid))
        if os.environ.get('ZVERIF_NO_EVIDENCE'):
            wp = os.devnull
        with open(wp, 'w') as f:
            json.dump({'property': r.prop, 'root': r.repo.root,
                       'obligation': o.as_json()}, f, indent=1)
        lines.append('VIOLATION property=%s replay=%s' % (r.prop, wp))
        lines.append('  rule %s [%s] at %s (%s): %s'
                     % (o.rule, o.config, o.site, o.where,
                        o.detail if isinstance(o.detail, str)
                        else json.dumps(o.detail)[:600]))
    distinct = set()
    for o in r.obls:
        if o.nontrivial:
            distinct.add((o.rule, o.site, o.construct, o.config))
    samples = []
    seen_rules = set()
    for o in r.obls:          # one sample per rule first, then violations
        if o.rule not in seen_rules:
            seen_rules.add(o.rule)
            samples.append(o.as_json())
    for o, _ in new + listed:
        j = o.as_json()
        if j not in samples:
            samples.append(j)
    cov = {
        'explanation': (
            'Static analysis of %s (sources read with ast / clang AST, '
            'never executed). Rules: ' % r.repo.root
            + ' | '.join('%s: %s' % kv for kv in sorted(r.rules.items()))),
        'evaluations': len(r.obls),
        'distinct_nontrivial': len(distinct),
        'rule': ('one evaluation = one obligation (rule instance at a code '
                 'site, per twin configuration PY/C); non-trivial = the site '
                 'was located structurally and the verdict needed a '
                 'path/dominance/table/provenance argument; distinct by '
                 '(rule, site, construct, config)'),
        'obligations': len(r.obls),
        'discharged': len(r.obls) - len(violated),
        'violated_new': len(new),
        'violated_known': len(listed),
        'per_rule': {rid: {'sites': counts.get(rid, 0),
                           'floor': r.floors[rid]} for rid in sorted(r.rules)},
        'samples': samples[:40],
        'files_parsed': sorted(set(r.repo.files_parsed)),
        'source_digest': r.repo.digest(),
        'declined_clauses': r.declined,
        'informational': r.info[:50],
        'stats': r.stats,
        'exhaustive': False,
    }
    if extra_cov:
        cov.update(extra_cov)
    ev = {
        'property_id': r.prop,
        'tier': r.tier,
        'seed': int(seed),
        'level': level,
        'coverage': cov,
        'assumptions': r.assumptions,
        'wall_s': round(time.time() - r.t0, 3),
        'violations': len(new),
    }
    evdir = os.path.join(VERIF, 'evidence')
    os.makedirs(evdir, exist_ok=True)
    if not os.environ.get('ZVERIF_NO_EVIDENCE'):
        with open(os.path.join(evdir, '%s.json' % r.prop), 'w') as f:
            json.dump(ev, f, indent=1, sort_keys=True)
    if not quiet:
        for ln in lines:
            print(ln)
        print('%s: %d obligations over %d rules, %d hold, %d known, %d new '
              'violation(s) [%s, %.2fs]'
              % (r.prop, len(r.obls), len(r.rules),
                 len(r.obls) - len(violated), len(listed), len(new),
                 r.tier, time.time() - r.t0))
    sys.stdout.flush()
    return 1 if new else 0
