"""Inlining of *new* private helper functions.

Rules anchor on the functions that exist in the reference tree
(`known_defs.json`).  A refactoring that extracts part of such a function into
a new private helper (module-level `_helper(...)`, `self._helper(...)`,
`cls._helper(...)`, or a nested def) would hide code from the rules; this pass
puts it back: calls of helpers whose names are not in the reference table are
replaced by the helper's body (statement level, with early returns
restructured into if/else; expression level for one-line helpers).  Helpers
that cannot be inlined safely are left alone (the rules then see a call).
"""
import ast
import copy
import json
import os

from .pyfront import clone, FUNC, methods_of

_HERE = os.path.dirname(os.path.abspath(__file__))
with open(os.path.join(_HERE, 'known_defs.json')) as _f:
    KNOWN = json.load(_f)


def known_names(rel):
    return set(KNOWN.get(rel, []))


class _Fail(Exception):
    pass


def _has_return(stmts):
    for st in stmts:
        for n in ast.walk(st):
            if isinstance(n, ast.Return):
                return True
    return False


def _loop_returns(stmts, target, flag):
    """inside a loop body: `return v` -> target = v; flag = True; break
    (nested loops get `if flag: break` after them)."""
    out = []
    for st in stmts:
        if isinstance(st, ast.Return):
            if target is not None:
                v = st.value if st.value is not None else ast.Constant(value=None)
                out.append(ast.Assign(targets=[ast.Name(id=target, ctx=ast.Store())], value=v))
            elif st.value is not None and not isinstance(st.value, (ast.Constant, ast.Name)):
                out.append(ast.Expr(value=st.value))
            out.append(ast.Assign(targets=[ast.Name(id=flag, ctx=ast.Store())],
                                  value=ast.Constant(value=True)))
            out.append(ast.Break())
            return out
        if isinstance(st, ast.If):
            out.append(ast.If(test=st.test, body=_loop_returns(st.body, target, flag) or [ast.Pass()],
                              orelse=_loop_returns(st.orelse, target, flag)))
            continue
        if isinstance(st, (ast.For, ast.While)) and _has_return([st]):
            new = clone(st)
            new.body = _loop_returns(st.body, target, flag)
            out.append(new)
            out.append(ast.If(test=ast.Name(id=flag, ctx=ast.Load()), body=[ast.Break()], orelse=[]))
            continue
        if isinstance(st, (ast.Try, ast.With)) and _has_return([st]):
            raise _Fail('return inside try/with of the helper')
        if isinstance(st, FUNC + (ast.ClassDef,)):
            raise _Fail('nested definition in helper')
        out.append(st)
    return out


def _restructure(stmts, target, flag=None):
    """Rewrite a helper body so that `return e` becomes `target = e` and
    nothing executes afterwards (nested if/else; a return inside a loop sets a
    flag and breaks, the rest of the body runs under `if not flag`).
    Returns (stmts, terminated)."""
    out = []
    for i, st in enumerate(stmts):
        if isinstance(st, ast.Return):
            if target is not None:
                v = st.value if st.value is not None else ast.Constant(value=None)
                out.append(ast.Assign(targets=[ast.Name(id=target, ctx=ast.Store())],
                                      value=v))
            elif st.value is not None and not isinstance(st.value, (ast.Constant, ast.Name)):
                out.append(ast.Expr(value=st.value))
            return out, True
        if isinstance(st, ast.If):
            body, tb = _restructure(st.body, target, flag)
            orelse, te = _restructure(st.orelse, target, flag)
            rest = stmts[i + 1:]
            if tb and te:
                out.append(ast.If(test=st.test, body=body or [ast.Pass()], orelse=orelse))
                return out, True
            if tb and not te:
                rest_r, tr = _restructure(rest, target, flag)
                out.append(ast.If(test=st.test, body=body or [ast.Pass()],
                                  orelse=orelse + rest_r))
                return out, tr
            if te and not tb:
                rest_r, tr = _restructure(rest, target, flag)
                out.append(ast.If(test=st.test, body=body + rest_r or [ast.Pass()],
                                  orelse=orelse))
                return out, tr
            out.append(ast.If(test=st.test, body=body or [ast.Pass()], orelse=orelse))
            continue
        if isinstance(st, (ast.For, ast.While)) and _has_return([st]):
            if flag is None:
                raise _Fail('return inside a loop of the helper')
            out.append(ast.Assign(targets=[ast.Name(id=flag, ctx=ast.Store())],
                                  value=ast.Constant(value=False)))
            new = clone(st)
            new.body = _loop_returns(st.body, target, flag)
            out.append(new)
            rest_r, tr = _restructure(stmts[i + 1:], target, flag)
            if rest_r:
                out.append(ast.If(test=ast.UnaryOp(op=ast.Not(),
                                                   operand=ast.Name(id=flag, ctx=ast.Load())),
                                  body=rest_r, orelse=[]))
            return out, False
        if isinstance(st, ast.Try) and _has_return([st]) and not st.finalbody \
                and flag is not None and target is not None and not any(
                    isinstance(n, (ast.For, ast.While)) and _has_return([n])
                    for n in ast.walk(st)):
            # returns inside try / except / else: each becomes `target = v;
            # flag = True` (the value is still computed inside the try, where
            # it was), and what follows the statement runs only `if not flag`
            def sub(block):
                stmts_, _t = _restructure(list(block), target, flag)
                return _mark_returns(stmts_, target, flag) or [ast.Pass()]
            new = clone(st)
            new.body = sub(st.body)
            new.orelse = sub(st.orelse) if st.orelse else []
            for h_new, h_old in zip(new.handlers, st.handlers):
                h_new.body = sub(h_old.body)
            out.append(ast.Assign(targets=[ast.Name(id=flag, ctx=ast.Store())],
                                  value=ast.Constant(value=False)))
            out.append(new)
            rest_r, tr = _restructure(stmts[i + 1:], target, flag)
            if rest_r:
                out.append(ast.If(test=ast.UnaryOp(op=ast.Not(),
                                                   operand=ast.Name(id=flag, ctx=ast.Load())),
                                  body=rest_r, orelse=[]))
            return out, False
        if isinstance(st, (ast.Try, ast.With)) and _has_return([st]):
            raise _Fail('return inside try/with of the helper')
        if isinstance(st, FUNC + (ast.ClassDef,)):
            raise _Fail('nested definition in helper')
        for n in ast.walk(st):
            if isinstance(n, (ast.Yield, ast.YieldFrom, ast.Await, ast.Global, ast.Nonlocal)):
                raise _Fail('generator/global in helper')
        out.append(st)
    return out, False


def _mark_returns(stmts, target, flag):
    """after every assignment to the (fresh) result name, record that the
    helper has returned"""
    out = []
    for st in stmts:
        if isinstance(st, ast.If):
            st = ast.If(test=st.test, body=_mark_returns(st.body, target, flag) or [ast.Pass()],
                        orelse=_mark_returns(st.orelse, target, flag))
        out.append(st)
        if isinstance(st, ast.Assign) and len(st.targets) == 1 and \
                isinstance(st.targets[0], ast.Name) and st.targets[0].id == target:
            out.append(ast.Assign(targets=[ast.Name(id=flag, ctx=ast.Store())],
                                  value=ast.Constant(value=True)))
    return out


class _Subst(ast.NodeTransformer):
    def __init__(self, mapping):
        self.m = mapping

    def visit_Name(self, node):
        if node.id in self.m:
            v = self.m[node.id]
            if isinstance(node.ctx, ast.Load):
                return clone(v)
            if isinstance(v, ast.Name):
                return ast.Name(id=v.id, ctx=node.ctx)
        return node


def _simple(e):
    if isinstance(e, (ast.Name, ast.Constant)):
        return True
    if isinstance(e, ast.Attribute):
        return _simple(e.value)
    if isinstance(e, ast.Subscript):
        return _simple(e.value) and _simple(e.slice)
    if isinstance(e, ast.Tuple):
        return all(_simple(x) for x in e.elts)
    return False


def _assigned_names(stmts):
    out = set()
    for st in stmts:
        for n in ast.walk(st):
            if isinstance(n, ast.Name) and isinstance(n.ctx, (ast.Store, ast.Del)):
                out.add(n.id)
    return out


def _bind(helper, call, skip_self):
    """parameter -> argument mapping (Fail when not expressible)."""
    a = helper.args
    if a.kwarg or a.kwonlyargs or getattr(a, 'posonlyargs', []):
        raise _Fail('unsupported helper signature')
    params = [p.arg for p in a.args]
    if skip_self:
        params = params[1:]
    if any(isinstance(x, ast.Starred) for x in call.args) or \
            any(k.arg is None for k in call.keywords):
        raise _Fail('star arguments')
    m = {}
    for p, arg in zip(params, call.args):
        m[p] = arg
    if len(call.args) > len(params):
        if a.vararg is None:
            raise _Fail('too many arguments')
    if a.vararg is not None:
        # `*rest` receives the surplus positional arguments as a tuple
        m[a.vararg.arg] = ast.Tuple(elts=list(call.args[len(params):]), ctx=ast.Load())
    for k in call.keywords:
        if k.arg not in params or k.arg in m:
            raise _Fail('bad keyword')
        m[k.arg] = k.value
    defaults = dict(zip(params[len(params) - len(a.defaults):], a.defaults)) \
        if a.defaults else {}
    for p in params:
        if p not in m:
            if p in defaults:
                m[p] = defaults[p]
            else:
                raise _Fail('missing argument')
    return m


class Inliner:
    def __init__(self, module, rel, cls=None, max_depth=3):
        self.mod = module
        self.rel = rel
        self.cls = cls
        self.known = known_names(rel)
        self.counter = 0
        self.max_depth = max_depth
        self.inlined = []
        self._pre = {}
        self.modfuncs = {st.name: st for st in module.body if isinstance(st, FUNC)}
        self.methods = methods_of(cls, raw=True) if cls is not None else {}

    def helper_for(self, call, nested):
        h, skip = self._helper_for(call, nested)
        if h is not None:
            from .normalize import prenormalize_helper
            key = id(h)
            if key not in self._pre:
                self._pre[key] = prenormalize_helper(h)
            h = self._pre[key]
        return h, skip

    def _helper_for(self, call, nested):
        f = call.func
        if isinstance(f, ast.Name):
            name = f.id
            if name in nested:
                return nested[name], False
            h = self.modfuncs.get(name)
            if h is not None and name.startswith('_') and name not in self.known:
                return h, False
            return None, False
        if isinstance(f, ast.Attribute) and isinstance(f.value, ast.Name) and \
                f.value.id in ('self', 'cls') and self.cls is not None:
            name = f.attr
            h = self.methods.get(name)
            if h is not None and name not in self.known and name.startswith('_'):
                static = any(isinstance(d, ast.Name) and d.id == 'staticmethod'
                             for d in h.decorator_list)
                return h, not static
            # name mangled private helpers: self.__x
        return None, False

    def inline_function(self, func):
        new = clone(func)
        nested = {}
        for st in new.body:
            if isinstance(st, FUNC) and st.name not in self.known:
                nested[st.name] = st
        new.body = [st for st in new.body
                    if not (isinstance(st, FUNC) and st.name in nested)] if nested else new.body
        for _ in range(self.max_depth):
            changed = self._inline_block_owner(new, nested, set(
                p.arg for p in new.args.args) | _assigned_names(new.body))
            if not changed:
                break
        from .normalize import beta_reduce
        for k, st in enumerate(new.body):
            new.body[k] = beta_reduce(st)
        ast.fix_missing_locations(new)
        for parent in ast.walk(new):
            for child in ast.iter_child_nodes(parent):
                child.parent = parent
        new.parent = getattr(func, 'parent', None)
        new.inlined_helpers = list(self.inlined)
        return new

    def _inline_block_owner(self, owner, nested, caller_names):
        changed = False
        for field in ('body', 'orelse', 'finalbody'):
            blk = getattr(owner, field, None)
            if not isinstance(blk, list) or not blk or not isinstance(blk[0], ast.stmt):
                continue
            newblk = []
            for st in blk:
                rep = self._try_stmt(st, nested, caller_names)
                if rep is None:
                    rep = self._hoist(st, nested, caller_names)
                if rep is not None:
                    newblk.extend(rep)
                    changed = True
                else:
                    if self._expr_inline(st, nested):
                        changed = True
                    if self._inline_block_owner(st, nested, caller_names):
                        changed = True
                    newblk.append(st)
            setattr(owner, field, newblk)
        if isinstance(owner, ast.Try):
            for h in owner.handlers:
                if self._inline_block_owner(h, nested, caller_names):
                    changed = True
        return changed

    def _hoist(self, st, nested, caller_names):
        """A helper call nested in the header expression of a statement
        (`if helper(x) == y:`, `v = f(helper(x))`): when everything evaluated
        before it is free of calls, bind its value to a temporary first."""
        field = {ast.If: 'test', ast.Assign: 'value', ast.Return: 'value',
                 ast.Expr: 'value', ast.AugAssign: 'value', ast.For: 'iter'}.get(type(st))
        if field is None:
            return None
        expr = getattr(st, field)
        if expr is None:
            return None
        from .pyfront import eval_order
        # sub-expressions that are evaluated conditionally, lazily or repeatedly:
        # a call there cannot be bound to a temporary in front of the statement
        lazy = set()

        def mark(e):
            for y in ast.walk(e):
                lazy.add(id(y))
        for x in ast.walk(expr):
            if isinstance(x, ast.Lambda):
                mark(x.body)
            elif isinstance(x, (ast.ListComp, ast.SetComp, ast.DictComp, ast.GeneratorExp)):
                for k, g in enumerate(x.generators):
                    mark(g.target)
                    if k:
                        mark(g.iter)
                    for c in g.ifs:
                        mark(c)
                if isinstance(x, ast.DictComp):
                    mark(x.key)
                    mark(x.value)
                else:
                    mark(x.elt)
            elif isinstance(x, ast.IfExp):
                mark(x.body)
                mark(x.orelse)
            elif isinstance(x, ast.BoolOp):
                for v in x.values[1:]:
                    mark(v)
        target = None
        for x in eval_order(expr):
            if isinstance(x, ast.Call):
                helper, _ = self.helper_for(x, nested)
                if helper is None or id(x) in lazy:
                    return None        # another call runs first / not evaluated once
                target = x
                break
        if target is None or (target is expr and not isinstance(st, (ast.For, ast.If))):
            return None
        self.counter += 1
        tmp = '_inl%d_val' % self.counter
        caller_names.add(tmp)
        pre = ast.Assign(targets=[ast.Name(id=tmp, ctx=ast.Store())], value=target)
        ast.copy_location(pre, st)
        rep = self._try_stmt(pre, nested, caller_names)
        if rep is None:
            return None

        class R(ast.NodeTransformer):
            def visit_Call(self, node):
                if node is target:
                    return ast.copy_location(ast.Name(id=tmp, ctx=ast.Load()), node)
                return self.generic_visit(node)
        setattr(st, field, R().visit(expr))
        return rep + [st]

    def _try_generator(self, st, nested, caller_names):
        """`for v in gen(args): BODY` and `L.extend(gen(args))` where gen is a NEW
        private generator function: the generator's body with every `yield E`
        replaced by `v = E; BODY` (BODY without break/continue of its own; the
        generator without return statements and with yields only as statements)"""
        body = None
        if isinstance(st, ast.For) and isinstance(st.iter, ast.Call) and not st.orelse:
            call, target, body = st.iter, st.target, st.body
        elif isinstance(st, ast.Expr) and isinstance(st.value, ast.Call) and \
                isinstance(st.value.func, ast.Attribute) and st.value.func.attr == 'extend' \
                and len(st.value.args) == 1 and not st.value.keywords and \
                isinstance(st.value.args[0], ast.Call):
            call = st.value.args[0]
            self.counter += 1
            tv = '_inl%d_item' % self.counter
            target = ast.Name(id=tv, ctx=ast.Store())
            body = [ast.Expr(value=ast.Call(
                func=ast.Attribute(value=clone(st.value.func.value), attr='append',
                                   ctx=ast.Load()),
                args=[ast.Name(id=tv, ctx=ast.Load())], keywords=[]))]
        if body is None:
            return None
        helper, skip_self = self._helper_for(call, nested)
        if helper is None:
            return None
        hb = helper.body
        if hb and isinstance(hb[0], ast.Expr) and isinstance(hb[0].value, ast.Constant) and \
                isinstance(hb[0].value.value, str):
            hb = hb[1:]
        ys = [n for s_ in hb for n in ast.walk(s_) if isinstance(n, (ast.Yield, ast.YieldFrom))]
        if not ys:
            return None
        if any(isinstance(n, (ast.Return, ast.Lambda) + FUNC) for s_ in hb for n in ast.walk(s_)):
            return None

        def own_jump(stmts):
            for s_ in stmts:
                if isinstance(s_, (ast.Break, ast.Continue)):
                    return True
                if isinstance(s_, (ast.For, ast.While) + FUNC):
                    continue
                for f_ in ('body', 'orelse', 'finalbody'):
                    if own_jump(getattr(s_, f_, []) or []):
                        return True
                if isinstance(s_, ast.Try):
                    for h_ in s_.handlers:
                        if own_jump(h_.body):
                            return True
            return False
        if own_jump(body):
            return None
        try:
            m = _bind(helper, call, skip_self)
        except _Fail:
            return None
        self.counter += 1
        pre, mapping = [], {}
        gbody = [clone(s_) for s_ in hb]
        locals_ = _assigned_names(gbody)
        for p_, arg in m.items():
            if (_simple(arg) or isinstance(arg, ast.Lambda)) and p_ not in locals_:
                mapping[p_] = arg
            else:
                tmp = p_ if (p_ not in caller_names) else '_inl%d_%s' % (self.counter, p_)
                pre.append(ast.Assign(targets=[ast.Name(id=tmp, ctx=ast.Store())], value=arg))
                mapping[p_] = ast.Name(id=tmp, ctx=ast.Load())
                caller_names.add(tmp)
        if skip_self:
            mapping[helper.args.args[0].arg] = ast.Name(id='self', ctx=ast.Load())
        for name in locals_:
            if name in m:
                continue
            if name in caller_names:
                new = '_inl%d_%s' % (self.counter, name)
                mapping[name] = ast.Name(id=new, ctx=ast.Load())
                caller_names.add(new)
            else:
                caller_names.add(name)
        sub = _Subst(mapping)
        gbody = [sub.visit(s_) for s_ in gbody]
        ok = [True]

        def expand(stmts):
            out = []
            for s_ in stmts:
                if isinstance(s_, ast.Expr) and isinstance(s_.value, ast.Yield):
                    val = s_.value.value or ast.Constant(value=None)
                    out.append(ast.Assign(targets=[clone(target)], value=val))
                    out.extend(clone(b) for b in body)
                    continue
                if isinstance(s_, ast.Expr) and isinstance(s_.value, ast.YieldFrom):
                    out.append(ast.For(target=clone(target), iter=s_.value.value,
                                       body=[clone(b) for b in body], orelse=[],
                                       type_comment=None))
                    continue
                if any(isinstance(n, (ast.Yield, ast.YieldFrom)) for n in ast.walk(s_)) and \
                        not any(hasattr(s_, f_) for f_ in ('body',)):
                    ok[0] = False
                for f_ in ('body', 'orelse', 'finalbody'):
                    blk = getattr(s_, f_, None)
                    if isinstance(blk, list) and blk and isinstance(blk[0], ast.stmt):
                        setattr(s_, f_, expand(blk))
                if isinstance(s_, ast.Try):
                    for h_ in s_.handlers:
                        h_.body = expand(h_.body)
                # a yield left in a header expression cannot be expressed
                for fld in ('test', 'iter', 'value'):
                    e_ = getattr(s_, fld, None)
                    if isinstance(e_, ast.AST) and any(
                            isinstance(n, (ast.Yield, ast.YieldFrom)) for n in ast.walk(e_)):
                        ok[0] = False
                out.append(s_)
            return out
        res = pre + expand(gbody)
        if not ok[0]:
            return None
        for s_ in res:
            ast.copy_location(s_, st)
            for n in ast.walk(s_):
                if not hasattr(n, 'lineno'):
                    ast.copy_location(n, st)
        self.inlined.append(helper.name)
        return res

    def _try_stmt(self, st, nested, caller_names):
        g_ = self._try_generator(st, nested, caller_names)
        if g_ is not None:
            return g_
        call = None
        target = None
        kind = None
        if isinstance(st, ast.Expr) and isinstance(st.value, ast.Call):
            call, kind = st.value, 'expr'
        elif isinstance(st, ast.Return) and isinstance(st.value, ast.Call):
            call, kind = st.value, 'return'
        elif isinstance(st, ast.Assign) and isinstance(st.value, ast.Call):
            call, kind = st.value, 'assign'
        if call is None:
            return None
        helper, skip_self = self.helper_for(call, nested)
        if helper is None:
            return None
        try:
            m = _bind(helper, call, skip_self)
            body = clone(helper.body)
            if body and isinstance(body[0], ast.Expr) and \
                    isinstance(body[0].value, ast.Constant) and \
                    isinstance(body[0].value.value, str):
                body = body[1:]
            self.counter += 1
            pre = []
            mapping = {}
            locals_ = _assigned_names(body)
            for p, arg in m.items():
                if (_simple(arg) or isinstance(arg, ast.Lambda)) and p not in locals_:
                    mapping[p] = arg
                else:
                    tmp = p if (p not in caller_names) else '_inl%d_%s' % (self.counter, p)
                    pre.append(ast.Assign(targets=[ast.Name(id=tmp, ctx=ast.Store())],
                                          value=arg))
                    mapping[p] = ast.Name(id=tmp, ctx=ast.Load())
                    caller_names.add(tmp)
            if skip_self:
                mapping[helper.args.args[0].arg] = ast.Name(id='self', ctx=ast.Load())
            for name in locals_:
                if name in m:
                    continue
                if name in caller_names:
                    new = '_inl%d_%s' % (self.counter, name)
                    mapping[name] = ast.Name(id=new, ctx=ast.Load())
                    caller_names.add(new)
                else:
                    caller_names.add(name)
            if kind == 'assign':
                tname = '_inl%d_ret' % self.counter
            elif kind == 'return':
                tname = '_inl%d_ret' % self.counter
            else:
                tname = None
            flag = '_inl%d_done' % self.counter
            rs, term = _restructure(body, tname, flag)
            if not term and tname is not None:
                rs.insert(0, ast.Assign(targets=[ast.Name(id=tname, ctx=ast.Store())],
                                        value=ast.Constant(value=None)))
            sub = _Subst(mapping)
            rs = [sub.visit(s) for s in rs]
            out = pre + rs
            if kind == 'assign':
                # a chained assignment binds its targets left to right
                for t_ in st.targets:
                    out.append(ast.Assign(targets=[t_],
                                          value=ast.Name(id=tname, ctx=ast.Load())))
            elif kind == 'return':
                out.append(ast.Return(value=ast.Name(id=tname, ctx=ast.Load())))
            for s in out:
                ast.copy_location(s, st)
                for n in ast.walk(s):
                    if not hasattr(n, 'lineno'):
                        ast.copy_location(n, st)
            self.inlined.append(helper.name)
            return out
        except _Fail:
            return None

    def _expr_inline(self, st, nested):
        """expression-level inlining of one-line helpers (`return expr`)."""
        changed = False
        inl = self

        class T(ast.NodeTransformer):
            def visit_Call(self, node):
                nonlocal changed
                self.generic_visit(node)
                helper, skip_self = inl.helper_for(node, nested)
                if helper is None:
                    return node
                body = helper.body
                if body and isinstance(body[0], ast.Expr) and \
                        isinstance(body[0].value, ast.Constant):
                    body = body[1:]
                if len(body) != 1 or not isinstance(body[0], ast.Return) or \
                        body[0].value is None:
                    return node
                try:
                    m = _bind(helper, node, skip_self)
                except _Fail:
                    return node
                if not all(_simple(a) or isinstance(a, ast.Lambda) for a in m.values()):
                    return node
                if skip_self:
                    m[helper.args.args[0].arg] = ast.Name(id='self', ctx=ast.Load())
                changed = True
                inl.inlined.append(helper.name)
                return _Subst(m).visit(clone(body[0].value))
        # only expressions directly owned by this statement (not nested blocks)
        for field, val in ast.iter_fields(st):
            if isinstance(val, ast.expr):
                setattr(st, field, T().visit(val))
            elif isinstance(val, list) and val and isinstance(val[0], ast.expr):
                setattr(st, field, [T().visit(v) for v in val])
        return changed
