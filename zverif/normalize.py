"""Semantics-preserving normalisations applied to a function before the rules
look at it (after helper inlining).

* **loop folding**: a loop whose only effect is to fill a fresh local
  container, one element per iteration under guards,

      L = []                      L = [E for T in IT if not C1 if C2]
      for T in IT:          ==>
          if C1: continue
          if C2: L.append(E)

  (likewise `S = set()` / `S.add(E)` and `D = {}` / `D[K] = V`, nested `for`s
  and nested `if`s without `else`).  Conditions: L is bound to an empty
  literal in the same block, nothing between that binding and the loop
  mentions L, the loop has no `else`/`break`/`return`, its body consists of
  guards and exactly one fill, neither guards nor element mention L, and the
  loop variables are not read after the loop.
* after a folded binding, `L.append(X)` / `L.extend(Y)` / `L.insert(0, X)`
  statements in the same block become `L = L + [X]` / `L = L + list(Y)` /
  `L = [X] + L` (so the content stays explicit) until L is used otherwise.
* comprehension filters are put in negation normal form, a conjunction
  becomes several `if` clauses.

Nothing here changes what the code computes; it only removes spelling
differences between a comprehension and the loop that builds the same list.
"""
import ast

from .pyfront import clone, FUNC


def _names(node, ctx=None):
    out = set()
    for n in ast.walk(node):
        if isinstance(n, ast.Name) and (ctx is None or isinstance(n.ctx, ctx)):
            out.add(n.id)
    return out


def _mentions(node, name):
    return any(isinstance(n, ast.Name) and n.id == name for n in ast.walk(node))


def nnf(e, neg=False):
    """negation normal form of a boolean expression (as an expression whose
    truth value is the same)"""
    if isinstance(e, ast.UnaryOp) and isinstance(e.op, ast.Not):
        return nnf(e.operand, not neg)
    if isinstance(e, ast.Call) and isinstance(e.func, ast.Name) and e.func.id == 'bool' \
            and len(e.args) == 1 and not e.keywords:
        return nnf(e.args[0], neg)          # the truth of bool(x) is the truth of x
    if isinstance(e, ast.IfExp):
        # in a boolean context: (True if c else B) is (c or B), etc.
        c, A, B = e.test, e.body, e.orelse
        rew = None
        if _is_const(A, True):
            rew = ast.BoolOp(op=ast.Or(), values=[c, B])
        elif _is_const(A, False):
            rew = ast.BoolOp(op=ast.And(), values=[ast.UnaryOp(op=ast.Not(), operand=c), B])
        elif _is_const(B, True):
            rew = ast.BoolOp(op=ast.Or(), values=[ast.UnaryOp(op=ast.Not(), operand=c), A])
        elif _is_const(B, False):
            rew = ast.BoolOp(op=ast.And(), values=[c, A])
        if rew is not None:
            return nnf(rew, neg)
    if isinstance(e, ast.BoolOp):
        if not neg:
            return ast.BoolOp(op=e.op, values=[nnf(v, False) for v in e.values])
        op = ast.Or() if isinstance(e.op, ast.And) else ast.And()
        return ast.BoolOp(op=op, values=[nnf(v, True) for v in e.values])
    if neg:
        if isinstance(e, ast.Compare) and len(e.ops) == 1:
            # `not (a == b)` is NOT `a != b` for arbitrary objects: only the
            # operators Python itself defines as negations are flipped
            flip = {ast.Is: ast.IsNot, ast.IsNot: ast.Is, ast.In: ast.NotIn,
                    ast.NotIn: ast.In}
            t = type(e.ops[0])
            if t in flip:
                return ast.Compare(left=e.left, ops=[flip[t]()],
                                   comparators=e.comparators)
        return ast.UnaryOp(op=ast.Not(), operand=e)
    return e


def _conjuncts(e):
    e = nnf(e)
    if isinstance(e, ast.BoolOp) and isinstance(e.op, ast.And):
        out = []
        for v in e.values:
            out += _conjuncts(v)
        return out
    return [e]


class _NoFold(Exception):
    pass


_PURE_FUNCS = ('len', 'tuple', 'list', 'isinstance', 'type', 'id')


def _call_free(e):
    for n in ast.walk(e):
        if isinstance(n, ast.Call) and not (isinstance(n.func, ast.Name)
                                            and n.func.id in _PURE_FUNCS):
            return False
        if isinstance(n, (ast.Yield, ast.YieldFrom, ast.Await, ast.NamedExpr)):
            return False
    return True


class _Inline(ast.NodeTransformer):
    def __init__(self, name, value):
        self.name, self.value = name, value

    def visit_Name(self, n):
        if n.id == self.name and isinstance(n.ctx, ast.Load):
            return clone(self.value)
        return n


def _fill_of(stmts, L, kind, temps=None):
    """stmts = guards + one fill of L; returns (generators-tail, element)
    where generators-tail is a list of ('if', cond) / ('for', target, iter)"""
    tail = []
    body = [clone(x) for x in stmts]
    if temps is None:
        temps = set()
    while True:
        if not body:
            raise _NoFold()
        st = body[0]
        if isinstance(st, ast.If) and not st.orelse and len(st.body) == 1 and \
                isinstance(st.body[0], ast.Continue) and len(body) > 1:
            if _mentions(st.test, L):
                raise _NoFold()
            tail += [('if', c) for c in _conjuncts(ast.UnaryOp(op=ast.Not(), operand=st.test))]
            body = body[1:]
            continue
        if len(body) > 1 and isinstance(st, ast.Assign) and len(st.targets) == 1 and \
                isinstance(st.targets[0], ast.Name) and st.targets[0].id != L and \
                not _call_free(st.value) and not _mentions(st.value, L) and \
                isinstance(body[1], ast.If) and \
                sum(1 for n in ast.walk(body[1].test) if isinstance(n, ast.Name)
                    and n.id == st.targets[0].id) == 1 and \
                not any(_mentions(x, st.targets[0].id) for x in body[2:]) and \
                not any(_mentions(x, st.targets[0].id)
                        for x in list(body[1].body) + list(body[1].orelse)):
            # a temporary computed right before the test that is its only
            # reader: read it through (nothing runs in between)
            tmp = st.targets[0].id
            first = None
            from .pyfront import eval_order as _eo
            for x in _eo(body[1].test):
                if isinstance(x, ast.Call):
                    first = 'call'
                    break
                if isinstance(x, ast.Name) and x.id == tmp:
                    first = 'tmp'
                    break
            if first == 'tmp':
                nb = clone(body[1])
                nb.test = _Inline(tmp, st.value).visit(nb.test)
                body = [nb] + body[2:]
                temps.add(tmp)
                continue
        if len(body) > 1 and isinstance(st, ast.Assign) and len(st.targets) == 1 and \
                isinstance(st.targets[0], ast.Name) and st.targets[0].id != L and \
                _call_free(st.value) and not _mentions(st.value, L):
            # a loop-local temporary holding a call-free expression: read it
            # through (the expression has the same value wherever it is used
            # within the iteration, provided nothing it mentions is rebound)
            tmp = st.targets[0].id
            rest = body[1:]
            if any(isinstance(x, (ast.Assign, ast.AugAssign, ast.For)) and
                   (_names(x, ast.Store) & (_names(st.value) | {tmp})) for x in rest):
                raise _NoFold()
            body = [_Inline(tmp, st.value).visit(x) for x in rest]
            temps.add(tmp)
            continue
        if len(body) > 1 and isinstance(st, ast.If) and not st.orelse and \
                len(st.body) == 1 and isinstance(st.body[0], ast.Assign) and \
                len(st.body[0].targets) == 1 and \
                isinstance(st.body[0].targets[0], ast.Name) and \
                st.body[0].targets[0].id != L and _call_free(st.test) and \
                _call_free(st.body[0].value) and not _mentions(st, L):
            # a conditional rebinding `if c: x = A` before the fill: x is
            # `A if c else x` from here on
            tmp = st.body[0].targets[0].id
            val = ast.IfExp(test=st.test, body=st.body[0].value,
                            orelse=ast.Name(id=tmp, ctx=ast.Load()))
            rest = body[1:]
            if any(isinstance(x, (ast.Assign, ast.AugAssign, ast.For)) and
                   (_names(x, ast.Store) & (_names(val) | {tmp})) for x in rest):
                raise _NoFold()
            body = [_Inline(tmp, val).visit(x) for x in rest]
            temps.add(tmp)
            continue
        if len(body) != 1:
            raise _NoFold()
        if isinstance(st, ast.If) and st.orelse:
            # both arms fill the same element under their own conditions:
            # one filter `(c and A) or (not c and B)`
            if _mentions(st.test, L) or not _call_free(st.test):
                raise _NoFold()
            ta, ea = _fill_of(list(st.body), L, kind, temps)
            tb, eb = _fill_of(list(st.orelse), L, kind, temps)
            if any(t[0] != 'if' for t in ta + tb) or ast.dump(ea if not isinstance(
                    ea, tuple) else ast.Tuple(elts=list(ea), ctx=ast.Load())) != ast.dump(
                        eb if not isinstance(eb, tuple)
                        else ast.Tuple(elts=list(eb), ctx=ast.Load())):
                raise _NoFold()

            def conj(first, rest):
                vals = [first] + [t[1] for t in rest]
                return vals[0] if len(vals) == 1 else ast.BoolOp(op=ast.And(), values=vals)
            cond = ast.BoolOp(op=ast.Or(), values=[
                conj(st.test, ta),
                conj(ast.UnaryOp(op=ast.Not(), operand=clone(st.test)), tb)])
            tail.append(('if', cond))
            return tail, ea
        if isinstance(st, ast.If) and not st.orelse:
            if _mentions(st.test, L):
                raise _NoFold()
            tail += [('if', c) for c in _conjuncts(st.test)]
            body = list(st.body)
            continue
        if isinstance(st, ast.For) and not st.orelse and not _mentions(st.iter, L):
            tail.append(('for', st.target, st.iter))
            body = list(st.body)
            continue
        # the fill
        if kind in ('list', 'set') and isinstance(st, ast.Expr) and \
                isinstance(st.value, ast.Call) and \
                isinstance(st.value.func, ast.Attribute) and \
                isinstance(st.value.func.value, ast.Name) and \
                st.value.func.value.id == L and len(st.value.args) == 1 and \
                not st.value.keywords and \
                st.value.func.attr == ('append' if kind == 'list' else 'add'):
            el = st.value.args[0]
            if _mentions(el, L):
                raise _NoFold()
            return tail, el
        if kind == 'dict' and isinstance(st, ast.Assign) and len(st.targets) == 1 and \
                isinstance(st.targets[0], ast.Subscript) and \
                isinstance(st.targets[0].value, ast.Name) and \
                st.targets[0].value.id == L:
            k, v = st.targets[0].slice, st.value
            if _mentions(k, L) or _mentions(v, L):
                raise _NoFold()
            return tail, (k, v)
        raise _NoFold()


def _empty_kind(v):
    if isinstance(v, ast.List) and not v.elts:
        return 'list'
    if isinstance(v, ast.Dict) and not v.keys:
        return 'dict'
    if isinstance(v, ast.Call) and isinstance(v.func, ast.Name) and not v.args \
            and not v.keywords and v.func.id in ('list', 'set', 'dict'):
        return v.func.id
    return None


def _has_jump(node):
    for n in ast.walk(node):
        if isinstance(n, (ast.Break, ast.Return, ast.Yield, ast.YieldFrom)):
            return True
    return False


def _fold_block(block, later_reads):
    """fold loops in one statement list; later_reads(i) -> names read after
    statement i in the enclosing function (conservative)"""
    changed = False
    i = 0
    folded = set()
    while i < len(block):
        st = block[i]
        if isinstance(st, ast.For) and not st.orelse and not _has_jump(st):
            done = False
            # candidate containers: empty bindings earlier in this block
            for j in range(i - 1, -1, -1):
                b = block[j]
                if not (isinstance(b, ast.Assign) and len(b.targets) == 1 and
                        isinstance(b.targets[0], ast.Name)):
                    continue
                kind = _empty_kind(b.value)
                if kind is None:
                    continue
                L = b.targets[0].id
                if any(_mentions(x, L) for x in block[j + 1:i]) or _mentions(st.iter, L):
                    continue
                temps = set()
                try:
                    tail, el = _fill_of(st.body, L, kind, temps)
                except _NoFold:
                    continue
                loopvars = _names(st.target) | temps
                for t in tail:
                    if t[0] == 'for':
                        loopvars |= _names(t[1])
                if loopvars & later_reads(i):
                    continue
                gens = [ast.comprehension(target=st.target, iter=st.iter, ifs=[], is_async=0)]
                for t in tail:
                    if t[0] == 'if':
                        gens[-1].ifs.append(t[1])
                    else:
                        gens.append(ast.comprehension(target=t[1], iter=t[2], ifs=[],
                                                      is_async=0))
                if kind == 'list':
                    comp = ast.ListComp(elt=el, generators=gens)
                elif kind == 'set':
                    comp = ast.SetComp(elt=el, generators=gens)
                else:
                    comp = ast.DictComp(key=el[0], value=el[1], generators=gens)
                ast.copy_location(comp, st)
                new = ast.Assign(targets=[ast.Name(id=L, ctx=ast.Store())], value=comp)
                ast.copy_location(new, st)
                block[i] = new
                del block[j]
                i -= 1
                folded.add(L)
                changed = done = True
                break
            if done:
                i += 1
                continue
        # a further fill loop onto a list whose content is explicit:
        # L = L + [E for T in IT if ...]
        if isinstance(st, ast.For) and not st.orelse and not _has_jump(st) and folded:
            done = False
            for L in list(folded):
                if _mentions(st.iter, L):
                    continue
                temps = set()
                try:
                    tail, el = _fill_of(st.body, L, 'list', temps)
                except _NoFold:
                    continue
                loopvars = _names(st.target) | temps
                for t in tail:
                    if t[0] == 'for':
                        loopvars |= _names(t[1])
                if loopvars & later_reads(i):
                    continue
                gens = [ast.comprehension(target=st.target, iter=st.iter, ifs=[], is_async=0)]
                for t in tail:
                    if t[0] == 'if':
                        gens[-1].ifs.append(t[1])
                    else:
                        gens.append(ast.comprehension(target=t[1], iter=t[2], ifs=[],
                                                      is_async=0))
                comp = ast.ListComp(elt=el, generators=gens)
                a = ast.Assign(targets=[ast.Name(id=L, ctx=ast.Store())],
                               value=ast.BinOp(left=ast.Name(id=L, ctx=ast.Load()),
                                               op=ast.Add(), right=comp))
                ast.copy_location(a, st)
                ast.fix_missing_locations(a)
                block[i] = a
                changed = done = True
                break
            if done:
                i += 1
                continue
        # content-explicit appends after a fold
        if isinstance(st, ast.Expr) and isinstance(st.value, ast.Call) and \
                isinstance(st.value.func, ast.Attribute) and \
                isinstance(st.value.func.value, ast.Name) and \
                st.value.func.value.id in folded and not st.value.keywords:
            L = st.value.func.value.id
            c = st.value
            new = None
            cur = ast.Name(id=L, ctx=ast.Load())
            if c.func.attr == 'append' and len(c.args) == 1 and not _mentions(c.args[0], L):
                new = ast.BinOp(left=cur, op=ast.Add(),
                                right=ast.List(elts=[c.args[0]], ctx=ast.Load()))
            elif c.func.attr == 'extend' and len(c.args) == 1 and not _mentions(c.args[0], L):
                new = ast.BinOp(left=cur, op=ast.Add(), right=ast.Call(
                    func=ast.Name(id='list', ctx=ast.Load()), args=[c.args[0]], keywords=[]))
            elif c.func.attr == 'insert' and len(c.args) == 2 and \
                    isinstance(c.args[0], ast.Constant) and c.args[0].value == 0 and \
                    not _mentions(c.args[1], L):
                new = ast.BinOp(left=ast.List(elts=[c.args[1]], ctx=ast.Load()),
                                op=ast.Add(), right=cur)
            if new is not None:
                a = ast.Assign(targets=[ast.Name(id=L, ctx=ast.Store())], value=new)
                ast.copy_location(a, st)
                ast.fix_missing_locations(a)
                block[i] = a
                changed = True
                i += 1
                continue
        # any other statement that rebinds or mutates a folded list ends the
        # explicit-content phase for it
        for L in list(folded):
            if isinstance(st, (ast.For, ast.While, ast.If, ast.Try, ast.With)) and \
                    _mentions(st, L):
                folded.discard(L)
            elif _escapes(st, L):
                folded.discard(L)
        # a fresh list display bound to a local has explicit content too
        if isinstance(st, ast.Assign) and len(st.targets) == 1 and \
                isinstance(st.targets[0], ast.Name) and isinstance(st.value, ast.List) \
                and st.value.elts and not any(isinstance(e, ast.Starred)
                                              for e in st.value.elts) \
                and not _mentions(st.value, st.targets[0].id):
            folded.add(st.targets[0].id)
        i += 1
    return changed


_NO_ALIAS_CALLS = ('tuple', 'list', 'len', 'set', 'frozenset', 'sorted', 'reversed',
                   'iter', 'any', 'all', 'enumerate', 'zip', 'bool')


def _escapes(st, L):
    """the list bound to local L may become reachable under another name"""
    if not _mentions(st, L):
        return False
    if isinstance(st, ast.Assign):
        v = st.value
        if isinstance(v, ast.Name) and v.id == L:
            return True
        if any(not isinstance(t, ast.Name) for t in st.targets) and _mentions(v, L):
            # stored into an attribute / item: still the same object there
            return not (isinstance(v, ast.Call) and isinstance(v.func, ast.Name)
                        and v.func.id in _NO_ALIAS_CALLS)
    for n in ast.walk(st):
        if isinstance(n, ast.Call):
            fn = n.func
            if isinstance(fn, ast.Attribute) and isinstance(fn.value, ast.Name) and \
                    fn.value.id == L:
                continue
            direct = [a for a in list(n.args) + [k.value for k in n.keywords]
                      if (isinstance(a, ast.Name) and a.id == L) or
                      (isinstance(a, ast.Starred) and False)]
            if direct and not (isinstance(fn, ast.Name) and fn.id in _NO_ALIAS_CALLS):
                return True
        if isinstance(n, (ast.List, ast.Tuple, ast.Set, ast.Dict)) and \
                isinstance(getattr(n, 'ctx', ast.Load()), ast.Load):
            elts = list(getattr(n, 'elts', [])) + list(getattr(n, 'values', []) or [])
            if any(isinstance(e, ast.Name) and e.id == L for e in elts):
                return True
        if isinstance(n, (ast.Return, ast.Yield)) and isinstance(n.value, ast.Name) \
                and n.value.id == L:
            return True
    return False


def _has_fill_loop(block):
    """only sink when it can enable a fold: some branch below starts a loop"""
    for st in block:
        if isinstance(st, ast.If):
            for n in ast.walk(st):
                if isinstance(n, ast.For):
                    return True
    return False


def _sink_block(block):
    """`L = []` followed (with no use of L in between) by an if/else whose
    test does not mention L but whose branches do: move the binding into both
    branches (a fresh empty container has no identity anyone observed)."""
    changed = False
    j = 0
    while j < len(block):
        b = block[j]
        if isinstance(b, ast.Assign) and len(b.targets) == 1 and \
                isinstance(b.targets[0], ast.Name) and _empty_kind(b.value):
            L = b.targets[0].id
            k = j + 1
            while k < len(block) and not _mentions(block[k], L):
                k += 1
            if k < len(block) and isinstance(block[k], ast.If) and \
                    not _mentions(block[k].test, L):
                node = block[k]
                for fld in ('body', 'orelse'):
                    new = clone(b)
                    getattr(node, fld).insert(0, new)
                del block[j]
                changed = True
                continue
        j += 1
    return changed


def _split_ifexp_loops(block):
    """`for t in (A if c else B): body` with a call-free test whose names the
    body does not rebind is `if c: for t in A: body / else: for t in B: body`
    (c is evaluated once, before the loop, either way)."""
    changed = False
    for j, st in enumerate(block):
        if not (isinstance(st, ast.For) and isinstance(st.iter, ast.IfExp)):
            continue
        c = st.iter.test
        if not _call_free(c):
            continue
        written = set()
        for n in ast.walk(st):
            if isinstance(n, ast.Name) and isinstance(n.ctx, (ast.Store, ast.Del)):
                written.add(n.id)
        if written & {n.id for n in ast.walk(c) if isinstance(n, ast.Name)}:
            continue
        a, b = clone(st), clone(st)
        a.iter, b.iter = clone(st.iter.body), clone(st.iter.orelse)
        new = ast.copy_location(ast.If(test=clone(c), body=[a], orelse=[b]), st)
        block[j] = new
        changed = True
    return changed


def _lazy_ids(expr):
    """ids of sub-expressions evaluated conditionally, lazily or repeatedly"""
    lazy = set()

    def mark(e):
        for y in ast.walk(e):
            lazy.add(id(y))
    for x in ast.walk(expr):
        if isinstance(x, ast.Lambda):
            mark(x.body)
        elif isinstance(x, COMPS):
            for k, g in enumerate(x.generators):
                mark(g.target)
                if k:
                    mark(g.iter)
                for c in g.ifs:
                    mark(c)
            if isinstance(x, ast.DictComp):
                mark(x.key)
                mark(x.value)
            else:
                mark(x.elt)
        elif isinstance(x, ast.IfExp):
            mark(x.body)
            mark(x.orelse)
        elif isinstance(x, ast.BoolOp):
            for v in x.values[1:]:
                mark(v)
    return lazy


def _split_ifexp_stmts(block):
    """`x = A if c else B` / `return A if c else B` / `raise ...` with a
    call-free test is the if/else statement; so is a conditional expression
    nested in the value when nothing that could run code is evaluated before
    its test (f(g(A if c else B)): names are looked up, then c is tested)"""
    from .pyfront import eval_order
    changed = False
    for j, st in enumerate(block):
        field = None
        if isinstance(st, ast.Assign) and len(st.targets) == 1 and \
                (isinstance(st.targets[0], ast.Name) or _call_free(st.targets[0])):
            field = 'value'
        elif isinstance(st, ast.Return) or (isinstance(st, ast.Expr)):
            field = 'value'
        elif isinstance(st, ast.Raise) and st.cause is None:
            field = 'exc'
        if field is None:
            continue
        v = getattr(st, field)
        if v is None:
            continue
        lazy = _lazy_ids(v)
        cand = None
        before_ok = True
        for x in eval_order(v):
            if isinstance(x, ast.IfExp) and id(x) not in lazy:
                cand = x
                break
        if cand is None or not _call_free(cand.test):
            continue
        inside = {id(n) for n in ast.walk(cand)}
        for x in eval_order(v):
            if id(x) in inside:
                break
            if isinstance(x, ast.Call) and not (isinstance(x.func, ast.Name) and
                                                x.func.id in _PURE_FUNCS):
                before_ok = False
                break
            if isinstance(x, (ast.Yield, ast.YieldFrom, ast.Await, ast.NamedExpr)):
                before_ok = False
                break
        if not before_ok:
            continue
        k = [i for i, n in enumerate(ast.walk(v)) if n is cand][0]
        arms = []
        for which in ('body', 'orelse'):
            new = clone(st)
            nv = getattr(new, field)
            tgt = list(ast.walk(nv))[k]
            br = getattr(tgt, which)
            if tgt is nv:
                setattr(new, field, br)
            else:
                class Sw2(ast.NodeTransformer):
                    def visit_IfExp(self, node):
                        return br if node is tgt else self.generic_visit(node)
                setattr(new, field, Sw2().visit(nv))
            arms.append(new)
        block[j] = ast.copy_location(ast.If(test=clone(cand.test), body=[arms[0]],
                                            orelse=[arms[1]]), st)
        ast.fix_missing_locations(block[j])
        changed = True
    return changed


def clone_keep(expr, keep):
    """a deep copy of expr in which the copy of node `keep` is `keep` itself"""
    class C(ast.NodeTransformer):
        def generic_visit(self, node):
            if node is keep:
                return node
            new = type(node)()
            for f, val in ast.iter_fields(node):
                if isinstance(val, list):
                    setattr(new, f, [self.visit(x) if isinstance(x, ast.AST) else x
                                     for x in val])
                elif isinstance(val, ast.AST):
                    setattr(new, f, self.visit(val))
                else:
                    setattr(new, f, val)
            for a in ('lineno', 'col_offset', 'end_lineno', 'end_col_offset'):
                if hasattr(node, a):
                    setattr(new, a, getattr(node, a))
            return new
    return C().visit(expr)


def _literal(e):
    if isinstance(e, ast.Constant):
        return True
    if isinstance(e, (ast.Name, ast.Attribute)):
        return isinstance(e, ast.Name) and e.id.isupper()      # module constants
    if isinstance(e, (ast.Tuple, ast.List)):
        return all(_literal(x) for x in e.elts)
    return False


def _continue_to_else(stmts):
    """in a loop body: `if c: A; continue` followed by R is `if c: A else: R`"""
    out = []
    for i, st in enumerate(stmts):
        if isinstance(st, ast.If) and not st.orelse and st.body and \
                isinstance(st.body[-1], ast.Continue) and not any(
                    isinstance(n, (ast.For, ast.While)) for b in st.body
                    for n in ast.walk(b)):
            rest = _continue_to_else(list(stmts[i + 1:]))
            new = ast.copy_location(ast.If(test=st.test, body=st.body[:-1] or [ast.Pass()],
                                           orelse=rest), st)
            ast.fix_missing_locations(new)
            out.append(new)
            return out
        out.append(st)
    return out


def _unroll_const_loops(block):
    """`for t in (<2..4 literal items>): body` without break/continue/else is
    the body once per item, with the target bound to the item"""
    changed = False
    j = 0
    while j < len(block):
        st = block[j]
        if isinstance(st, ast.For) and not st.orelse and \
                isinstance(st.iter, (ast.Tuple, ast.List)) and 2 <= len(st.iter.elts) <= 4 \
                and all(_literal(e) and not isinstance(e, ast.Starred)
                        for e in st.iter.elts):
            body = _continue_to_else([clone(b) for b in st.body])
            if any(isinstance(n, (ast.Break, ast.Continue))
                   for b in body for n in ast.walk(b)):
                j += 1
                continue
            out = []
            for e in st.iter.elts:
                bind = ast.copy_location(ast.Assign(targets=[clone(st.target)],
                                                    value=clone(e), type_comment=None), st)
                out.append(bind)
                out += [clone(b) for b in body]
            for s_ in out:
                ast.fix_missing_locations(s_)
            block[j:j + 1] = out
            j += len(out)
            changed = True
            continue
        j += 1
    return changed


class _SetAttr(ast.NodeTransformer):
    """setattr(x, 'name', v) as a statement is `x.name = v` (sympath resolves
    the name first, so this is applied to resolved statements as well)"""
    changed = False

    def visit_Expr(self, node):
        c = node.value
        if isinstance(c, ast.Call) and isinstance(c.func, ast.Name) and \
                c.func.id == 'setattr' and len(c.args) == 3 and not c.keywords and \
                isinstance(c.args[1], ast.Constant) and isinstance(c.args[1].value, str) \
                and c.args[1].value.isidentifier():
            self.changed = True
            return ast.copy_location(ast.Assign(
                targets=[ast.Attribute(value=c.args[0], attr=c.args[1].value,
                                       ctx=ast.Store())],
                value=c.args[2], type_comment=None), node)
        # x.__setitem__(k, v) / operator.setitem(x, k, v) is `x[k] = v`;
        # x.__delitem__(k) / operator.delitem(x, k) is `del x[k]`
        if isinstance(c, ast.Call) and not c.keywords and \
                not any(isinstance(a, ast.Starred) for a in c.args):
            f = c.func
            tgt = None
            if isinstance(f, ast.Attribute) and f.attr == '__setitem__' and len(c.args) == 2:
                tgt, key, val = f.value, c.args[0], c.args[1]
            elif isinstance(f, ast.Attribute) and isinstance(f.value, ast.Name) and \
                    f.value.id == 'operator' and f.attr == 'setitem' and len(c.args) == 3:
                tgt, key, val = c.args
            if tgt is not None:
                self.changed = True
                return ast.copy_location(ast.Assign(
                    targets=[ast.Subscript(value=tgt, slice=key, ctx=ast.Store())],
                    value=val, type_comment=None), node)
            if isinstance(f, ast.Attribute) and f.attr == '__delitem__' and len(c.args) == 1:
                tgt, key = f.value, c.args[0]
            elif isinstance(f, ast.Attribute) and isinstance(f.value, ast.Name) and \
                    f.value.id == 'operator' and f.attr == 'delitem' and len(c.args) == 2:
                tgt, key = c.args
            if tgt is not None:
                self.changed = True
                return ast.copy_location(ast.Delete(
                    targets=[ast.Subscript(value=tgt, slice=key, ctx=ast.Del())]), node)
        return node


def _ior_update(func):
    """`d |= x` on a local that is bound to a fresh dict / set in the same
    function is `d.update(x)`"""
    fresh = set()
    for n in ast.walk(func):
        if isinstance(n, ast.Assign) and len(n.targets) == 1 and \
                isinstance(n.targets[0], ast.Name) and _empty_kind(n.value) in ('dict', 'set'):
            fresh.add(n.targets[0].id)
    other = set()
    for n in ast.walk(func):
        if isinstance(n, ast.Assign):
            for t in n.targets:
                for x in ast.walk(t):
                    if isinstance(x, ast.Name) and x.id in fresh and \
                            _empty_kind(n.value) not in ('dict', 'set'):
                        other.add(x.id)
    fresh -= other
    changed = False
    for owner in ast.walk(func):
        for field in ('body', 'orelse', 'finalbody'):
            blk = getattr(owner, field, None)
            if not isinstance(blk, list):
                continue
            for j, st in enumerate(blk):
                if isinstance(st, ast.AugAssign) and isinstance(st.op, ast.BitOr) and \
                        isinstance(st.target, ast.Name) and st.target.id in fresh:
                    call = ast.Expr(value=ast.Call(
                        func=ast.Attribute(value=ast.Name(id=st.target.id, ctx=ast.Load()),
                                           attr='update', ctx=ast.Load()),
                        args=[st.value], keywords=[]))
                    ast.copy_location(call, st)
                    ast.fix_missing_locations(call)
                    blk[j] = call
                    changed = True
    return changed


class _FromKeys(ast.NodeTransformer):
    """dict.fromkeys((k1, k2, ...), c) with literal keys and a constant c is the
    display {k1: c, k2: c, ...}"""
    changed = False

    def visit_Call(self, node):
        self.generic_visit(node)
        f = node.func
        if isinstance(f, ast.Attribute) and f.attr == 'fromkeys' and \
                isinstance(f.value, ast.Name) and f.value.id == 'dict' and \
                1 <= len(node.args) <= 2 and not node.keywords and \
                isinstance(node.args[0], (ast.Tuple, ast.List)) and \
                all(isinstance(k, ast.Constant) for k in node.args[0].elts) and \
                (len(node.args) == 1 or isinstance(node.args[1], ast.Constant)):
            v = node.args[1] if len(node.args) == 2 else ast.Constant(value=None)
            self.changed = True
            return ast.copy_location(ast.Dict(
                keys=[clone(k) for k in node.args[0].elts],
                values=[clone(v) for _ in node.args[0].elts]), node)
        return node


def _scalarize_dicts(func):
    """a local bound once to a dict display with literal string keys, used only
    as `d['k']` (read, store, augmented store) with those keys and returned as
    a whole, is a bundle of separate locals: `d['k']` -> `d__k`, `return d` ->
    `return {'k': d__k, ...}`"""
    import re
    FUNC_ = (ast.FunctionDef, ast.AsyncFunctionDef, ast.Lambda)
    binds = {}
    for n in ast.walk(func):
        if isinstance(n, ast.Assign) and len(n.targets) == 1 and \
                isinstance(n.targets[0], ast.Name) and isinstance(n.value, ast.Dict):
            ks = n.value.keys
            if ks and all(isinstance(k, ast.Constant) and isinstance(k.value, str)
                          and re.fullmatch(r'[A-Za-z_][A-Za-z_0-9]*', k.value) for k in ks) \
                    and len({k.value for k in ks}) == len(ks):
                binds.setdefault(n.targets[0].id, []).append(n)
    all_names = {x.id for x in ast.walk(func) if isinstance(x, ast.Name)} | \
        {a.arg for a in ast.walk(func) if isinstance(a, ast.arg)}
    changed = False
    for name, sites in binds.items():
        if len(sites) != 1:
            continue
        bind = sites[0]
        keys = [k.value for k in bind.value.keys]
        new = {k: '%s__%s' % (name, k) for k in keys}
        if any(v in all_names for v in new.values()):
            continue
        # parents
        par = {}
        for p in ast.walk(func):
            for c in ast.iter_child_nodes(p):
                par[c] = p
        ok = True
        uses = []
        for x in ast.walk(func):
            if isinstance(x, ast.Name) and x.id == name and x is not bind.targets[0]:
                p = par.get(x)
                # inside a nested function?
                q = x
                while q is not func:
                    q = par[q]
                    if isinstance(q, FUNC_) and q is not func:
                        ok = False
                if isinstance(p, ast.Subscript) and p.value is x and \
                        isinstance(p.slice, ast.Constant) and p.slice.value in new and \
                        not isinstance(p.ctx, ast.Del):
                    uses.append(('item', p))
                elif isinstance(p, ast.Return) and p.value is x:
                    uses.append(('ret', p))
                else:
                    ok = False
            elif isinstance(x, (ast.Global, ast.Nonlocal)) and name in x.names:
                ok = False
        if any(a.arg == name for a in ast.walk(func) if isinstance(a, ast.arg)):
            ok = False
        if not ok:
            continue
        for kind, node in uses:
            if kind == 'item':
                p = par[node]
                rep = ast.copy_location(ast.Name(id=new[node.slice.value], ctx=node.ctx), node)
                for f, v in ast.iter_fields(p):
                    if v is node:
                        setattr(p, f, rep)
                    elif isinstance(v, list):
                        for i, y in enumerate(v):
                            if y is node:
                                v[i] = rep
            else:
                node.value = ast.copy_location(ast.Dict(
                    keys=[ast.Constant(value=k) for k in keys],
                    values=[ast.Name(id=new[k], ctx=ast.Load()) for k in keys]), node)
        # the binding becomes one assignment per key, in display order
        owner = par[bind]
        for f, v in ast.iter_fields(owner):
            if isinstance(v, list) and bind in v:
                i = v.index(bind)
                v[i:i + 1] = [ast.copy_location(ast.Assign(
                    targets=[ast.Name(id=new[k.value], ctx=ast.Store())], value=val,
                    type_comment=None), bind) for k, val in zip(bind.value.keys, bind.value.values)]
        ast.fix_missing_locations(func)
        changed = True
    return changed


def _exc_traceback(func):
    """inside `except T as exc:` (exc not rebound, no nested try), the handled
    exception's `exc.__traceback__` is `sys.exc_info()[2]`"""
    changed = False
    for h in ast.walk(func):
        if not isinstance(h, ast.ExceptHandler) or not h.name:
            continue
        body = ast.Module(body=h.body, type_ignores=[])
        if any(isinstance(x, ast.Try) for x in ast.walk(body)):
            continue
        if any(isinstance(x, ast.Name) and x.id == h.name and
               not isinstance(x.ctx, ast.Load) for x in ast.walk(body)):
            continue

        class T(ast.NodeTransformer):
            hit = False

            def visit_Attribute(self, n):
                self.generic_visit(n)
                if n.attr == '__traceback__' and isinstance(n.value, ast.Name) and \
                        n.value.id == h.name and isinstance(n.ctx, ast.Load):
                    T.hit = True
                    return ast.copy_location(
                        ast.parse('sys.exc_info()[2]', mode='eval').body, n)
                return n
        t = T()
        h.body = [t.visit(st) for st in h.body]
        if T.hit:
            changed = True
    return changed


def _is_const(e, v):
    return isinstance(e, ast.Constant) and e.value is v


def _genexp(elt, target, it):
    return ast.GeneratorExp(elt=elt, generators=[ast.comprehension(
        target=target, iter=it, ifs=[], is_async=0)])


def _call(name, arg):
    return ast.Call(func=ast.Name(id=name, ctx=ast.Load()), args=[arg], keywords=[])


def _any_all(block, later_reads=None):
    """search loops as any():
       for x in IT: if C: return True      ==  return any(C for x in IT)
       return False
       for x in IT: if C: A; break         ==  if any(C for x in IT): A
       else: B                                 else: B        (x not used in A/later)
    (any() stops at the first true C exactly like the return/break)."""
    changed = False
    j = 0
    while j < len(block):
        st = block[j]
        if isinstance(st, ast.For) and len(st.body) == 1 and isinstance(st.body[0], ast.If) \
                and not st.body[0].orelse:
            inner = st.body[0]
            tnames = _root_names(st.target)
            # return form
            if not st.orelse and len(inner.body) == 1 and isinstance(inner.body[0], ast.Return) \
                    and j + 1 < len(block) and isinstance(block[j + 1], ast.Return):
                a, b = inner.body[0].value, block[j + 1].value
                for hit, miss, neg in ((True, False, False), (False, True, True)):
                    if a is not None and b is not None and _is_const(a, hit) and _is_const(b, miss):
                        v = _call('any', _genexp(inner.test, st.target, st.iter))
                        if neg:
                            v = ast.UnaryOp(op=ast.Not(), operand=v)
                        new = ast.copy_location(ast.Return(value=v), st)
                        ast.fix_missing_locations(new)
                        block[j:j + 2] = [new]
                        changed = True
                        break
                if changed and block[j] is not st:
                    j += 1
                    continue
            # terminating form: for x in IT: if C: A; return/raise  (A, the
            # returned value do not mention x)  ==  if any(C for x in IT): A; return
            if not st.orelse and inner.body and \
                    isinstance(inner.body[-1], (ast.Return, ast.Raise)):
                used = set()
                for a_ in inner.body:
                    used |= _root_names(a_)
                later = later_reads(j) if later_reads is not None else tnames
                if not (tnames & used) and not (tnames & later) and not any(
                        isinstance(n, (ast.Break, ast.Continue))
                        for a_ in inner.body for n in ast.walk(a_)):
                    new = ast.copy_location(ast.If(
                        test=_call('any', _genexp(inner.test, st.target, st.iter)),
                        body=inner.body, orelse=[]), st)
                    ast.fix_missing_locations(new)
                    block[j] = new
                    changed = True
                    j += 1
                    continue
            # flag form: f = False; for x in IT: if C: f = True; break
            if not st.orelse and len(inner.body) == 2 and isinstance(inner.body[1], ast.Break) \
                    and isinstance(inner.body[0], ast.Assign) and \
                    len(inner.body[0].targets) == 1 and \
                    isinstance(inner.body[0].targets[0], ast.Name) and \
                    _is_const(inner.body[0].value, True):
                flag = inner.body[0].targets[0].id
                k = j - 1
                while k >= 0 and not _mentions(block[k], flag):
                    k -= 1
                later = later_reads(j) if later_reads is not None else tnames
                if k >= 0 and isinstance(block[k], ast.Assign) and \
                        len(block[k].targets) == 1 and \
                        isinstance(block[k].targets[0], ast.Name) and \
                        block[k].targets[0].id == flag and \
                        _is_const(block[k].value, False) and flag not in tnames and \
                        not _mentions(inner.test, flag) and not _mentions(st.iter, flag) \
                        and not (tnames & later):
                    new = ast.copy_location(ast.Assign(
                        targets=[ast.Name(id=flag, ctx=ast.Store())],
                        value=_call('any', _genexp(inner.test, st.target, st.iter)),
                        type_comment=None), st)
                    ast.fix_missing_locations(new)
                    block[j] = new
                    del block[k]
                    changed = True
                    continue
            # exhaustive flag form (no break): f = False; for x in IT: if C: f = True
            #   ==  f = bool([x for x in IT if C])   (every item is examined)
            if not st.orelse and len(inner.body) == 1 and \
                    isinstance(inner.body[0], ast.Assign) and \
                    len(inner.body[0].targets) == 1 and \
                    isinstance(inner.body[0].targets[0], ast.Name) and \
                    _is_const(inner.body[0].value, True) and isinstance(st.target, ast.Name):
                flag = inner.body[0].targets[0].id
                k = j - 1
                while k >= 0 and not _mentions(block[k], flag):
                    k -= 1
                later = later_reads(j) if later_reads is not None else tnames
                if k >= 0 and isinstance(block[k], ast.Assign) and \
                        len(block[k].targets) == 1 and \
                        isinstance(block[k].targets[0], ast.Name) and \
                        block[k].targets[0].id == flag and \
                        _is_const(block[k].value, False) and flag not in tnames and \
                        not _mentions(inner.test, flag) and not _mentions(st.iter, flag) \
                        and not (tnames & later):
                    comp = ast.ListComp(
                        elt=ast.Name(id=st.target.id, ctx=ast.Load()),
                        generators=[ast.comprehension(target=st.target, iter=st.iter,
                                                      ifs=[inner.test], is_async=0)])
                    new = ast.copy_location(ast.Assign(
                        targets=[ast.Name(id=flag, ctx=ast.Store())],
                        value=_call('bool', comp), type_comment=None), st)
                    ast.fix_missing_locations(new)
                    block[j] = new
                    del block[k]
                    changed = True
                    continue
            # break/else form
            if inner.body and isinstance(inner.body[-1], ast.Break):
                A = inner.body[:-1]
                used = set()
                for a_ in A:
                    used |= _root_names(a_)
                for b_ in st.orelse:
                    used |= _root_names(b_)
                has_jump = any(isinstance(n, (ast.Break, ast.Continue))
                               for a_ in A for n in ast.walk(a_))
                later = later_reads(j) if later_reads is not None else tnames
                if not (tnames & used) and not (tnames & later) and not has_jump:
                    new = ast.copy_location(ast.If(
                        test=_call('any', _genexp(inner.test, st.target, st.iter)),
                        body=A or [ast.Pass()], orelse=st.orelse), st)
                    ast.fix_missing_locations(new)
                    block[j] = new
                    changed = True
        j += 1
    return changed


def _expr_of(stmts):
    """the value of a block that consists only of if/else and returns, as one
    (conditional) expression; None if it is anything else"""
    if not stmts:
        return None
    st = stmts[0]
    if isinstance(st, ast.Return):
        return st.value if st.value is not None else ast.Constant(value=None)
    if isinstance(st, ast.If) and _expr_of(st.body) is not None:
        a = _expr_of(st.body)
        b = _expr_of(list(st.orelse) + list(stmts[1:]))
        if b is None:
            return None
        return ast.IfExp(test=st.test, body=a, orelse=b)
    # a local (re)binding read once afterwards (or call-free): read it through
    tgt = val = None
    if isinstance(st, ast.If) and not st.orelse and len(st.body) == 1 and \
            _call_free(st.test) is not None:
        # a conditional rebinding `if c: t = A` / `if c: t += A`
        b = st.body[0]
        t_, v_ = None, None
        if isinstance(b, ast.Assign) and len(b.targets) == 1 and \
                isinstance(b.targets[0], ast.Name):
            t_, v_ = b.targets[0].id, b.value
        elif isinstance(b, ast.AugAssign) and isinstance(b.target, ast.Name) and \
                isinstance(b.op, ast.Add):
            t_ = b.target.id
            v_ = ast.BinOp(left=ast.Name(id=t_, ctx=ast.Load()), op=ast.Add(), right=b.value)
        if t_ is not None:
            tgt = t_
            val = ast.IfExp(test=st.test, body=v_, orelse=ast.Name(id=t_, ctx=ast.Load()))
    if tgt is not None:
        pass
    elif isinstance(st, ast.Assign) and len(st.targets) == 1 and \
            isinstance(st.targets[0], ast.Name):
        tgt, val = st.targets[0].id, st.value
    elif isinstance(st, ast.AugAssign) and isinstance(st.target, ast.Name) and \
            isinstance(st.op, ast.Add):
        tgt = st.target.id
        val = ast.BinOp(left=ast.Name(id=tgt, ctx=ast.Load()), op=ast.Add(), right=st.value)
    if tgt is not None:
        rest = list(stmts[1:])
        loads = sum(1 for r in rest for n in ast.walk(r)
                    if isinstance(n, ast.Name) and n.id == tgt and isinstance(n.ctx, ast.Load))
        stores = any(isinstance(n, ast.Name) and n.id == tgt and
                     isinstance(n.ctx, ast.Store) for r in rest for n in ast.walk(r))
        if stores or (loads > 1 and not _call_free(val)):
            return None
        if not all(isinstance(r, (ast.Return, ast.If)) for r in rest):
            return None
        if loads == 1 and not _call_free(val):
            # the single read must be the first thing evaluated after the binding
            if not (len(rest) == 1 and isinstance(rest[0], ast.Return)):
                return None
        sub = _Inline(tgt, val)
        return _expr_of([sub.visit(clone(r)) for r in rest])
    return None


def prenormalize_helper(helper):
    """a clone of the helper with search loops folded and a pure if/return
    cascade turned into one conditional expression (so that a predicate
    helper can be inlined as an expression, also inside a comprehension)"""
    new = clone(helper)
    changed = _any_all(new.body)
    if _iter_next_loops(new.body):
        changed = True
    # a bare `return` that ends the helper says nothing
    if new.body and isinstance(new.body[-1], ast.Return) and new.body[-1].value is None \
            and len(new.body) > 1:
        new.body = new.body[:-1]
        changed = True
    body = new.body
    doc = []
    if body and isinstance(body[0], ast.Expr) and isinstance(body[0].value, ast.Constant) \
            and isinstance(body[0].value.value, str):
        doc, body = body[:1], body[1:]
    if len(body) > 1 or (body and isinstance(body[0], ast.If)):
        v = _expr_of(body)
        if v is not None:
            new.body = doc + [ast.copy_location(ast.Return(value=v), body[0])]
            changed = True
    if changed:
        ast.fix_missing_locations(new)
        return new
    return helper


def _root_names(e):
    return {n.id for n in ast.walk(e) if isinstance(n, ast.Name)}


def _split_star_loops(block):
    """`for t in (*A, *B, *C): body` (no break, body does not mention the
    roots of A, B, C) is `for s in (A, B, C): for t in s: body`; and
    `for t in map(F, X): body` (F call-free) is `for m in X: t = F(m); body`
    (map is lazy: F is applied right before each trip either way)."""
    changed = False
    for j, st in enumerate(block):
        if not isinstance(st, ast.For) or st.orelse:
            continue
        it = st.iter
        if isinstance(it, (ast.Tuple, ast.List)) and len(it.elts) >= 2 and \
                all(isinstance(e, ast.Starred) for e in it.elts):
            if any(isinstance(n, ast.Break) for b in st.body for n in ast.walk(b)):
                continue
            roots = set()
            for e in it.elts:
                roots |= _root_names(e.value)
            body_names = set()
            for b in st.body:
                body_names |= _root_names(b)
            body_names |= _root_names(st.target)
            if roots & body_names:
                continue
            if not all(_call_free(e.value) or isinstance(e.value, (ast.ListComp,))
                       for e in it.elts):
                continue
            seq = '__seq_%d' % getattr(st, 'lineno', j)
            inner = ast.copy_location(ast.For(
                target=st.target, iter=ast.Name(id=seq, ctx=ast.Load()),
                body=st.body, orelse=[], type_comment=None), st)
            outer = ast.copy_location(ast.For(
                target=ast.Name(id=seq, ctx=ast.Store()),
                iter=ast.copy_location(ast.Tuple(
                    elts=[e.value for e in it.elts], ctx=ast.Load()), it),
                body=[inner], orelse=[], type_comment=None), st)
            block[j] = outer
            changed = True
            continue
        if isinstance(it, ast.Call) and isinstance(it.func, ast.Name) and \
                it.func.id == 'map' and len(it.args) == 2 and not it.keywords and \
                isinstance(it.args[0], (ast.Name, ast.Attribute)) and \
                _call_free(it.args[0]) and not isinstance(it.args[1], ast.Starred):
            m = '__m_%d' % getattr(st, 'lineno', j)
            bind = ast.copy_location(ast.Assign(
                targets=[st.target],
                value=ast.copy_location(ast.Call(
                    func=it.args[0], args=[ast.Name(id=m, ctx=ast.Load())],
                    keywords=[]), it), type_comment=None), st)
            block[j] = ast.copy_location(ast.For(
                target=ast.Name(id=m, ctx=ast.Store()), iter=it.args[1],
                body=[bind] + st.body, orelse=[], type_comment=None), st)
            changed = True
    return changed


def _free_loads(node, bound=frozenset()):
    """names read in `node` that are not (re)bound inside it before the read:
    comprehension variables and the targets of for loops / earlier plain
    assignments of the same statement list do not count"""
    out = set()
    if isinstance(node, list):
        b = set(bound)
        for st in node:
            out |= _free_loads(st, frozenset(b))
            if isinstance(st, ast.Assign):
                for t in st.targets:
                    if isinstance(t, ast.Name):
                        b.add(t.id)
        return out
    if isinstance(node, (ast.ListComp, ast.SetComp, ast.GeneratorExp, ast.DictComp)):
        b = set(bound)
        for g in node.generators:
            out |= _free_loads(g.iter, frozenset(b))
            b |= _names(g.target)
            for c in g.ifs:
                out |= _free_loads(c, frozenset(b))
        if isinstance(node, ast.DictComp):
            out |= _free_loads(node.key, frozenset(b)) | _free_loads(node.value, frozenset(b))
        else:
            out |= _free_loads(node.elt, frozenset(b))
        return out
    if isinstance(node, ast.For):
        out |= _free_loads(node.iter, bound)
        b = frozenset(set(bound) | _names(node.target))
        out |= _free_loads(node.body, b)
        out |= _free_loads(node.orelse, bound)
        return out
    if isinstance(node, ast.Name):
        if isinstance(node.ctx, ast.Load) and node.id not in bound:
            out.add(node.id)
        return out
    for child in ast.iter_child_nodes(node):
        out |= _free_loads(child, bound)
    return out


def _reads_after(func, block, idx):
    """names that may be read after statement block[idx] finished: the rest
    of its block, the rest of every enclosing block, and the whole body of
    every enclosing loop (next iteration)"""
    out = _free_loads(list(block[idx + 1:]))
    node = block[idx]
    p = getattr(node, 'parent', None)
    while p is not None and p is not func:
        if isinstance(p, (ast.For, ast.While)):
            out |= _names(p, ast.Load) - _names(block[idx], ast.Load)
        pp = getattr(p, 'parent', None)
        if pp is not None:
            lists = [getattr(pp, f, None) for f in ('body', 'orelse', 'finalbody')]
            if isinstance(pp, ast.Try):
                lists += [h.body for h in pp.handlers]
            for blk in lists:
                if isinstance(blk, list) and any(x is p for x in blk):
                    k = [i for i, x in enumerate(blk) if x is p][0]
                    out |= _free_loads(list(blk[k + 1:]))
        p = pp
    return out


COMPS = (ast.ListComp, ast.SetComp, ast.DictComp, ast.GeneratorExp)


class _Alpha(ast.NodeTransformer):
    """comprehension-bound names renamed by nesting depth (c0, c0_1, c1, ...):
    `any(i.extends(x) for x in r)` and `any(i.extends(b) for b in r)` are the
    same expression"""

    def __init__(self):
        self.env = [{}]
        self.depth = 0
        self.changed = False

    def visit_Name(self, node):
        for scope in reversed(self.env):
            if node.id in scope:
                if scope[node.id] != node.id:
                    self.changed = True
                return ast.copy_location(ast.Name(id=scope[node.id], ctx=node.ctx), node)
        return node

    def visit_Lambda(self, node):
        shadow = {a.arg: a.arg for a in node.args.args + node.args.kwonlyargs}
        self.env.append(shadow)
        try:
            return self.generic_visit(node)
        finally:
            self.env.pop()

    def _comp(self, node):
        scope = {}
        k = 0
        for g in node.generators:
            for n in ast.walk(g.target):
                if isinstance(n, ast.Name) and n.id not in scope:
                    scope[n.id] = 'c%d' % self.depth if k == 0 else 'c%d_%d' % (self.depth, k)
                    k += 1
        # the first iterable is evaluated in the enclosing scope
        first = self.visit(node.generators[0].iter)
        self.env.append(scope)
        self.depth += 1
        try:
            for i, g in enumerate(node.generators):
                g.target = self.visit(g.target)
                if i:
                    g.iter = self.visit(g.iter)
                g.ifs = [self.visit(c) for c in g.ifs]
            node.generators[0].iter = first
            if isinstance(node, ast.DictComp):
                node.key = self.visit(node.key)
                node.value = self.visit(node.value)
            else:
                node.elt = self.visit(node.elt)
        finally:
            self.depth -= 1
            self.env.pop()
        return node

    visit_ListComp = visit_SetComp = visit_DictComp = visit_GeneratorExp = _comp


def alpha(node):
    """alpha-normalise comprehension variables in place; True if changed"""
    a = _Alpha()
    a.visit(node)
    return a.changed


def _module_of(func):
    p = getattr(func, 'parent', None)
    while p is not None and not isinstance(p, ast.Module):
        p = getattr(p, 'parent', None)
    return p


class _Positional(ast.NodeTransformer):
    """f(a, q=b, p=c) for a module-level `def f(x, p, q)` is f(a, c, b)
    (only keywords that name positional parameters and leave no gap; argument
    expressions must be call-free when their order changes)"""

    def __init__(self, mod):
        self.funcs = {st.name: st for st in mod.body if isinstance(st, FUNC)}
        self.changed = False

    def visit_Call(self, node):
        self.generic_visit(node)
        if not node.keywords or not isinstance(node.func, ast.Name):
            return node
        f = self.funcs.get(node.func.id)
        if f is None or any(k.arg is None for k in node.keywords) or \
                any(isinstance(a, ast.Starred) for a in node.args) or f.args.posonlyargs:
            return node
        params = [a.arg for a in f.args.args]
        kw = {k.arg: k.value for k in node.keywords}
        if not set(kw) <= set(params):
            return node
        args = list(node.args)
        rest = params[len(args):]
        take = []
        for p_ in rest:
            if p_ in kw:
                take.append(p_)
            else:
                break
        if set(take) != set(kw):
            return node
        in_order = [k.arg for k in node.keywords] == take
        if not in_order and not all(_call_free(v) for v in kw.values()):
            return node
        node.args = args + [kw[p_] for p_ in take]
        node.keywords = []
        self.changed = True
        return node


def _const_tables(func):
    """literal tuples/lists bound exactly once at module level, and in the
    enclosing class body ({name: value}, {attr: value})"""
    mod = _module_of(func)
    modc, clsc = {}, {}

    def collect(body, out):
        seen = {}
        for st in body:
            if isinstance(st, ast.Assign) and len(st.targets) == 1 and \
                    isinstance(st.targets[0], ast.Name):
                seen.setdefault(st.targets[0].id, []).append(st.value)
            elif isinstance(st, (ast.AugAssign, ast.AnnAssign)) and \
                    isinstance(st.target, ast.Name):
                seen.setdefault(st.target.id, []).append(None)
        for k, vs in seen.items():
            if len(vs) == 1 and isinstance(vs[0], (ast.Tuple, ast.List)) and \
                    1 <= len(vs[0].elts) <= 8 and all(
                        isinstance(e, ast.Constant) for e in vs[0].elts):
                out[k] = vs[0]
    if mod is not None:
        collect(mod.body, modc)
    p = getattr(func, 'parent', None)
    while p is not None and not isinstance(p, ast.ClassDef):
        p = getattr(p, 'parent', None)
    if p is not None:
        collect(p.body, clsc)
    return modc, clsc


class _ConstIter(ast.NodeTransformer):
    """an iteration source that is a module / class constant tuple of literals
    is that tuple"""

    def __init__(self, func, orig=None):
        self.modc, self.clsc = _const_tables(orig if orig is not None else func)
        self.local = _names(func, ast.Store) | {a.arg for a in func.args.args}
        self.changed = False

    def lit(self, it):
        if isinstance(it, ast.Name) and it.id in self.modc and it.id not in self.local:
            return self.modc[it.id]
        if isinstance(it, ast.Attribute) and isinstance(it.value, ast.Name) and \
                it.value.id in ('self', 'cls') and it.attr in self.clsc:
            return self.clsc[it.attr]
        return None

    def visit_For(self, node):
        self.generic_visit(node)
        v = self.lit(node.iter)
        if v is not None:
            node.iter = ast.copy_location(clone(v), node.iter)
            self.changed = True
        return node

    def visit_comprehension(self, node):
        self.generic_visit(node)
        v = self.lit(node.iter)
        if v is not None:
            node.iter = ast.copy_location(clone(v), node.iter)
            self.changed = True
        return node


class _NameSub(ast.NodeTransformer):
    def __init__(self, name, value):
        self.name, self.value = name, value

    def visit_Name(self, node):
        if node.id == self.name and isinstance(node.ctx, ast.Load):
            return clone(self.value)
        return node


class _UnrollComp(ast.NodeTransformer):
    """a comprehension over a literal display (one generator, no filter, a
    plain name as target) is the display of its element per item"""
    changed = False

    def _do(self, node):
        self.generic_visit(node)
        if len(node.generators) != 1:
            return node
        g = node.generators[0]
        if g.ifs or g.is_async or not isinstance(g.target, ast.Name) or \
                not isinstance(g.iter, (ast.Tuple, ast.List)) or \
                not 1 <= len(g.iter.elts) <= 8 or \
                not all(isinstance(e, ast.Constant) for e in g.iter.elts):
            return node
        inner = node.key if isinstance(node, ast.DictComp) else node.elt
        if any(isinstance(x, (ast.Lambda,) + COMPS) for x in ast.walk(inner)):
            return node
        self.changed = True
        if isinstance(node, ast.DictComp):
            ks = [_NameSub(g.target.id, e).visit(clone(node.key)) for e in g.iter.elts]
            vs = [_NameSub(g.target.id, e).visit(clone(node.value)) for e in g.iter.elts]
            return ast.copy_location(ast.Dict(keys=ks, values=vs), node)
        elts = [_NameSub(g.target.id, e).visit(clone(node.elt)) for e in g.iter.elts]
        if isinstance(node, ast.SetComp):
            return ast.copy_location(ast.Set(elts=elts), node)
        return ast.copy_location(ast.List(elts=elts, ctx=ast.Load()), node)

    visit_ListComp = visit_DictComp = visit_SetComp = _do


class _Beta(ast.NodeTransformer):
    """(lambda a, b: E)(x, y) is E[a := x, b := y] (plain positional parameters;
    an argument that is not call-free may be used at most once in E)"""
    changed = False

    def visit_Call(self, node):
        self.generic_visit(node)
        f = node.func
        if not isinstance(f, ast.Lambda) or node.keywords or \
                any(isinstance(a, ast.Starred) for a in node.args):
            return node
        a = f.args
        if a.vararg or a.kwarg or a.kwonlyargs or getattr(a, 'posonlyargs', []) or \
                a.defaults and len(node.args) < len(a.args):
            return node
        params = [x.arg for x in a.args]
        if len(params) != len(node.args):
            return node
        for pn, arg in zip(params, node.args):
            uses = sum(1 for x in ast.walk(f.body) if isinstance(x, ast.Name) and x.id == pn)
            if uses > 1 and not _call_free(arg):
                return node
        m = dict(zip(params, node.args))

        class S(ast.NodeTransformer):
            def visit_Name(self, n):
                if n.id in m and isinstance(n.ctx, ast.Load):
                    return clone(m[n.id])
                return n

            def visit_Lambda(self, n):
                inner = {x.arg for x in n.args.args}
                if inner & set(m):
                    return n
                return self.generic_visit(n)
        self.changed = True
        return ast.copy_location(S().visit(clone(f.body)), node)


def beta_reduce(node):
    return _Beta().visit(node)


_OP_BIN = {'eq': ast.Eq, 'ne': ast.NotEq, 'lt': ast.Lt, 'le': ast.LtE, 'gt': ast.Gt,
           'ge': ast.GtE, 'is_': ast.Is, 'is_not': ast.IsNot}


def _opname(f):
    """name of a function of the operator module (operator.x, or a bare imported x
    that is one of the unambiguous names)"""
    if isinstance(f, ast.Attribute) and isinstance(f.value, ast.Name) and \
            f.value.id in ('operator', '_operator'):
        return f.attr
    if isinstance(f, ast.Name) and f.id in ('attrgetter', 'itemgetter', 'methodcaller'):
        return f.id
    return None


class _Spell(ast.NodeTransformer):
    """[*X] is list(X); (*X,) is tuple(X); getattr(x, 'lit') is x.lit;
    x[slice(a, b)] is x[a:b]"""
    changed = False

    def visit_Subscript(self, node):
        self.generic_visit(node)
        sl = node.slice
        if isinstance(sl, ast.Call) and isinstance(sl.func, ast.Name) and \
                sl.func.id == 'slice' and 1 <= len(sl.args) <= 3 and not sl.keywords and \
                not any(isinstance(a, ast.Starred) for a in sl.args):
            a = list(sl.args)
            if len(a) == 1:
                a = [None, a[0]]
            a += [None] * (3 - len(a))
            none = lambda x: x is None or (isinstance(x, ast.Constant) and x.value is None)
            node.slice = ast.copy_location(ast.Slice(
                lower=None if none(a[0]) else a[0], upper=None if none(a[1]) else a[1],
                step=None if none(a[2]) else a[2]), sl)
            self.changed = True
        return node

    def visit_Call(self, node):
        self.generic_visit(node)
        r = self._functional(node)
        if r is not None:
            self.changed = True
            return ast.copy_location(r, node)
        if isinstance(node.func, ast.Name) and node.func.id == 'getattr' and \
                len(node.args) == 2 and not node.keywords and \
                isinstance(node.args[1], ast.Constant) and \
                isinstance(node.args[1].value, str) and node.args[1].value.isidentifier():
            self.changed = True
            return ast.copy_location(ast.Attribute(
                value=node.args[0], attr=node.args[1].value, ctx=ast.Load()), node)
        # f(*map(F, X)) is f(*[F(c) for c in X]); list(map(F, X)) likewise
        def is_map(e):
            return isinstance(e, ast.Call) and isinstance(e.func, ast.Name) and \
                e.func.id == 'map' and len(e.args) == 2 and not e.keywords and \
                isinstance(e.args[0], (ast.Name, ast.Attribute)) and \
                not isinstance(e.args[1], ast.Starred)

        def comp(m):
            c = ast.ListComp(
                elt=ast.Call(func=m.args[0], args=[ast.Name(id='_m', ctx=ast.Load())],
                             keywords=[]),
                generators=[ast.comprehension(target=ast.Name(id='_m', ctx=ast.Store()),
                                              iter=m.args[1], ifs=[], is_async=0)])
            ast.copy_location(c, m)
            ast.fix_missing_locations(c)
            return c
        # f(*(a, b)) is f(a, b) (a tuple display cannot have grown)
        if any(isinstance(a, ast.Starred) and isinstance(a.value, ast.Tuple) and
               not any(isinstance(y, ast.Starred) for y in a.value.elts) for a in node.args):
            flat = []
            for a in node.args:
                if isinstance(a, ast.Starred) and isinstance(a.value, ast.Tuple) and \
                        not any(isinstance(y, ast.Starred) for y in a.value.elts):
                    flat.extend(a.value.elts)
                else:
                    flat.append(a)
            node.args = flat
            self.changed = True
        for k, a in enumerate(node.args):
            if isinstance(a, ast.Starred) and is_map(a.value):
                node.args[k] = ast.copy_location(ast.Starred(value=comp(a.value),
                                                             ctx=ast.Load()), a)
                self.changed = True
        # list(filter(F, X)) is [x for x in X if F(x)]; filter(None, X) tests x itself
        if isinstance(node.func, ast.Name) and node.func.id in ('list', 'tuple') and \
                len(node.args) == 1 and not node.keywords and \
                isinstance(node.args[0], ast.Call) and \
                isinstance(node.args[0].func, ast.Name) and node.args[0].func.id == 'filter' \
                and len(node.args[0].args) == 2 and not node.args[0].keywords and \
                (isinstance(node.args[0].args[0], (ast.Name, ast.Attribute)) or
                 _is_const(node.args[0].args[0], None)):
            fl = node.args[0]
            v = ast.Name(id='_f', ctx=ast.Load())
            test = v if _is_const(fl.args[0], None) else ast.Call(
                func=fl.args[0], args=[ast.Name(id='_f', ctx=ast.Load())], keywords=[])
            c = ast.ListComp(elt=ast.Name(id='_f', ctx=ast.Load()), generators=[
                ast.comprehension(target=ast.Name(id='_f', ctx=ast.Store()),
                                  iter=fl.args[1], ifs=[test], is_async=0)])
            ast.copy_location(c, node)
            ast.fix_missing_locations(c)
            self.changed = True
            if node.func.id == 'list':
                return c
            node.args = [c]
            return node
        if isinstance(node.func, ast.Name) and node.func.id in ('list', 'tuple') and \
                len(node.args) == 1 and not node.keywords and is_map(node.args[0]):
            c = comp(node.args[0])
            self.changed = True
            if node.func.id == 'list':
                return c
            node.args = [c]
        return node

    def _functional(self, node):
        """operator.attrgetter('x')(e) is e.x; itemgetter(k)(e) is e[k];
        methodcaller('m', *a)(e) is e.m(*a); operator.contains(a, b) is b in a;
        operator.getitem(a, b) is a[b]; operator.eq/ne/lt/../is_/is_not(a, b) and
        not_/truth(a) are the operators; map(F, X) / filter(F, X) consumed by
        list/tuple/set/any/all/sum/dict/zip/iter/next or starred are comprehensions
        over X (F a lambda, an operator factory or a name); an immediately applied
        lambda is its body"""
        f = node.func
        plain = not node.keywords and not any(isinstance(a, ast.Starred) for a in node.args)
        if isinstance(f, ast.Name) and f.id in getattr(self, 'aliases', {}):
            # module-level `name = operator.attrgetter('x')` / `name = lambda ...`
            node = ast.Call(func=clone(self.aliases[f.id]), args=node.args,
                            keywords=node.keywords)
            f = node.func
            r = self._functional(node)
            return r if r is not None else node
        if isinstance(f, ast.Lambda):
            b = _Beta()
            r = b.visit(node)
            return r if b.changed else None
        # applied operator factories
        if isinstance(f, ast.Call) and plain and len(node.args) == 1 and not f.keywords:
            op = _opname(f.func)
            e = node.args[0]
            if op == 'attrgetter' and len(f.args) == 1 and isinstance(f.args[0], ast.Constant) \
                    and isinstance(f.args[0].value, str) and f.args[0].value.isidentifier():
                return ast.Attribute(value=e, attr=f.args[0].value, ctx=ast.Load())
            if op == 'itemgetter' and len(f.args) == 1:
                return ast.Subscript(value=e, slice=f.args[0], ctx=ast.Load())
            if op == 'methodcaller' and f.args and isinstance(f.args[0], ast.Constant) and \
                    isinstance(f.args[0].value, str) and f.args[0].value.isidentifier():
                return ast.Call(func=ast.Attribute(value=e, attr=f.args[0].value, ctx=ast.Load()),
                                args=list(f.args[1:]), keywords=[])
        if isinstance(f, ast.Attribute) and plain and len(node.args) == 1 and \
                f.attr in ('__getitem__', '__contains__'):
            if f.attr == '__getitem__':
                return ast.Subscript(value=f.value, slice=node.args[0], ctx=ast.Load())
            return ast.Compare(left=node.args[0], ops=[ast.In()], comparators=[f.value])
        op = _opname(f) if isinstance(f, ast.Attribute) else None
        if op and plain:
            a = node.args
            if op in _OP_BIN and len(a) == 2:
                return ast.Compare(left=a[0], ops=[_OP_BIN[op]()], comparators=[a[1]])
            if op == 'contains' and len(a) == 2:
                return ast.Compare(left=a[1], ops=[ast.In()], comparators=[a[0]])
            if op == 'getitem' and len(a) == 2:
                return ast.Subscript(value=a[0], slice=a[1], ctx=ast.Load())
            if op == 'not_' and len(a) == 1:
                return ast.UnaryOp(op=ast.Not(), operand=a[0])
            if op == 'truth' and len(a) == 1:
                return ast.Call(func=ast.Name(id='bool', ctx=ast.Load()), args=[a[0]], keywords=[])
        as_gen = self._as_gen
        if isinstance(f, ast.Name) and f.id in ('list', 'tuple', 'set', 'any', 'all', 'sum',
                                                'dict', 'iter', 'frozenset', 'sorted') and \
                plain and len(node.args) == 1:
            g = as_gen(node.args[0])
            if g is not None:
                # a lambda / factory consumer only: names keep the older spelling
                F = node.args[0].args[0]
                if isinstance(F, (ast.Name, ast.Attribute)) and f.id in ('list', 'tuple'):
                    return None
                if f.id == 'list':
                    return ast.ListComp(elt=g.elt, generators=g.generators)
                if f.id == 'tuple':
                    return ast.Call(func=f, args=[ast.ListComp(elt=g.elt,
                                                               generators=g.generators)],
                                    keywords=[])
                if f.id == 'set':
                    return ast.SetComp(elt=g.elt, generators=g.generators)
                return ast.Call(func=f, args=[g], keywords=[])
        if isinstance(f, ast.Name) and f.id == 'next' and plain and node.args:
            g = as_gen(node.args[0])
            if g is not None:
                return ast.Call(func=f, args=[g] + list(node.args[1:]), keywords=[])
        return None

    def _as_gen(self, m):
        # map / filter consumed eagerly
        def fn_ok(F):
            return isinstance(F, (ast.Lambda, ast.Name, ast.Attribute)) or \
                (isinstance(F, ast.Call) and _opname(F.func) in ('attrgetter', 'itemgetter',
                                                                  'methodcaller'))

        if True:
            if not (isinstance(m, ast.Call) and isinstance(m.func, ast.Name) and
                    m.func.id in ('map', 'filter') and len(m.args) == 2 and not m.keywords
                    and not any(isinstance(x, ast.Starred) for x in m.args)):
                return None
            F, X = m.args
            v = '_m' if m.func.id == 'map' else '_f'
            if m.func.id == 'filter' and _is_const(F, None):
                elt, ifs = ast.Name(id=v, ctx=ast.Load()), [ast.Name(id=v, ctx=ast.Load())]
            elif not fn_ok(F):
                return None
            else:
                app = self.visit(ast.Call(func=F, args=[ast.Name(id=v, ctx=ast.Load())],
                                          keywords=[]))
                if m.func.id == 'map':
                    elt, ifs = app, []
                else:
                    elt, ifs = ast.Name(id=v, ctx=ast.Load()), [app]
            return ast.GeneratorExp(elt=elt, generators=[ast.comprehension(
                target=ast.Name(id=v, ctx=ast.Store()), iter=X, ifs=ifs, is_async=0)])

    def _one_star(self, node, name):
        self.generic_visit(node)
        # [*filter(F, X), y] is [*[c for c in X if F(c)], y]; likewise map
        if isinstance(node.ctx, ast.Load):
            for k_, el in enumerate(node.elts):
                if isinstance(el, ast.Starred):
                    g_ = self._as_gen(el.value)
                    if g_ is not None:
                        node.elts[k_] = ast.copy_location(ast.Starred(
                            value=ast.copy_location(ast.ListComp(
                                elt=g_.elt, generators=g_.generators), el), ctx=ast.Load()), el)
                        self.changed = True
        if isinstance(node.ctx, ast.Load) and len(node.elts) == 1 and \
                isinstance(node.elts[0], ast.Starred):
            self.changed = True
            return ast.copy_location(ast.Call(
                func=ast.copy_location(ast.Name(id=name, ctx=ast.Load()), node),
                args=[node.elts[0].value], keywords=[]), node)
        return node

    def visit_List(self, node):
        return self._one_star(node, 'list')

    def visit_Tuple(self, node):
        return self._one_star(node, 'tuple')


def _loop_over_comp(block):
    """`for x in (y for y in S if C): BODY` (a generator expression or list
    comprehension that only filters) is `for x in S: if C[y := x]: BODY`"""
    changed = False
    for st in block:
        if not (isinstance(st, ast.For) and isinstance(st.target, ast.Name) and
                isinstance(st.iter, (ast.GeneratorExp, ast.ListComp)) and
                len(st.iter.generators) == 1):
            continue
        g = st.iter.generators[0]
        if not (isinstance(g.target, ast.Name) and isinstance(st.iter.elt, ast.Name) and
                st.iter.elt.id == g.target.id and not g.is_async):
            continue
        sub = _NameSub(g.target.id, ast.Name(id=st.target.id, ctx=ast.Load()))
        conds = [sub.visit(clone(c)) for c in g.ifs]
        body = st.body
        if conds:
            test = conds[0] if len(conds) == 1 else ast.BoolOp(op=ast.And(), values=conds)
            body = [ast.copy_location(ast.If(test=test, body=st.body, orelse=[]), st)]
        st.iter = g.iter
        st.body = body
        changed = True
    return changed


def _index_loops(block):
    """`for i in range(len(X)): ... X[i] ...` (i used only to index X, X not
    rebound in the body) is `for e in X: ... e ...`"""
    changed = False
    for st in block:
        if not (isinstance(st, ast.For) and isinstance(st.target, ast.Name) and
                not st.orelse and isinstance(st.iter, ast.Call) and
                isinstance(st.iter.func, ast.Name) and st.iter.func.id == 'range' and
                len(st.iter.args) == 1 and not st.iter.keywords):
            continue
        ln = st.iter.args[0]
        if not (isinstance(ln, ast.Call) and isinstance(ln.func, ast.Name) and
                ln.func.id == 'len' and len(ln.args) == 1 and not ln.keywords):
            continue
        X = ln.args[0]
        if not _call_free(X):
            continue
        xs = ast.dump(X)
        i = st.target.id
        roots = _root_names(X)
        ok = True
        uses = []
        for b in st.body:
            for n in ast.walk(b):
                if isinstance(n, ast.Name) and n.id in roots and \
                        isinstance(n.ctx, (ast.Store, ast.Del)):
                    ok = False
                if isinstance(n, ast.Subscript) and ast.dump(n.value) == xs and \
                        isinstance(n.slice, ast.Name) and n.slice.id == i and \
                        isinstance(n.ctx, ast.Load):
                    uses.append(n)
        n_i = sum(1 for b in st.body for n in ast.walk(b)
                  if isinstance(n, ast.Name) and n.id == i)
        if not ok or not uses or n_i != len(uses):
            continue
        ev = '_e_' + i

        class R(ast.NodeTransformer):
            def visit_Subscript(self, n):
                if any(n is u for u in uses):
                    return ast.copy_location(ast.Name(id=ev, ctx=ast.Load()), n)
                return self.generic_visit(n)
        st.body = [R().visit(b) for b in st.body]
        st.target = ast.copy_location(ast.Name(id=ev, ctx=ast.Store()), st.target)
        st.iter = X
        changed = True
    return changed


def _iter_next_loops(block):
    """it = iter(X); while True: try: v = next(it) / except StopIteration: return|break;
    BODY  is  for v in X: BODY  (followed by the return)"""
    changed = False
    k = 0
    while k + 1 < len(block):
        a, w = block[k], block[k + 1]
        k += 1
        if not (isinstance(a, ast.Assign) and len(a.targets) == 1 and
                isinstance(a.targets[0], ast.Name) and isinstance(a.value, ast.Call) and
                isinstance(a.value.func, ast.Name) and a.value.func.id == 'iter' and
                len(a.value.args) == 1 and not a.value.keywords):
            continue
        it = a.targets[0].id
        if not (isinstance(w, ast.While) and not w.orelse and w.body and
                (_is_const(w.test, True) or _is_const(w.test, 1)) and
                isinstance(w.body[0], ast.Try)):
            continue
        t = w.body[0]
        if not (len(t.body) == 1 and not t.orelse and not t.finalbody and
                len(t.handlers) == 1 and isinstance(t.handlers[0].type, ast.Name) and
                t.handlers[0].type.id == 'StopIteration' and len(t.handlers[0].body) == 1):
            continue
        nx = t.body[0]
        if not (isinstance(nx, ast.Assign) and len(nx.targets) == 1 and
                isinstance(nx.value, ast.Call) and isinstance(nx.value.func, ast.Name) and
                nx.value.func.id == 'next' and len(nx.value.args) == 1 and
                isinstance(nx.value.args[0], ast.Name) and nx.value.args[0].id == it):
            continue
        h = t.handlers[0].body[0]
        if isinstance(h, ast.Break):
            after = []
        elif isinstance(h, ast.Return):
            after = [h]
        else:
            continue
        rest = w.body[1:]
        if any(isinstance(n, ast.Name) and n.id == it for b in rest for n in ast.walk(b)):
            continue
        later = block[k + 1:]
        if any(isinstance(n, ast.Name) and n.id == it for b in later for n in ast.walk(b)):
            continue
        loop = ast.copy_location(ast.For(target=nx.targets[0], iter=a.value.args[0],
                                         body=rest or [ast.Pass()], orelse=[],
                                         type_comment=None), w)
        block[k - 1:k + 1] = [loop] + after
        changed = True
    return changed


def _comp_nnf(func):
    changed = False
    for n in ast.walk(func):
        if isinstance(n, ast.comprehension) and n.ifs:
            new = []
            for c in n.ifs:
                new += _conjuncts(c)
            if [ast.dump(x) for x in new] != [ast.dump(x) for x in n.ifs]:
                n.ifs = new
                changed = True
    return changed


def normalize(func):
    """returns a normalised clone of func, or func itself if nothing applies"""
    if not isinstance(func, FUNC):
        return func
    new = clone(func)
    for parent in ast.walk(new):
        for child in ast.iter_child_nodes(parent):
            child.parent = parent
    changed = False
    for _ in range(4):
        round_changed = False
        for owner in list(ast.walk(new)):
            if isinstance(owner, FUNC) and owner is not new:
                continue
            for field in ('body', 'orelse', 'finalbody'):
                blk = getattr(owner, field, None)
                if isinstance(blk, list) and blk and isinstance(blk[0], ast.stmt):
                    if _has_fill_loop(blk) and _sink_block(blk):
                        round_changed = True
                    if _split_ifexp_loops(blk):
                        round_changed = True
                    if _split_star_loops(blk):
                        round_changed = True
                    if _split_ifexp_stmts(blk):
                        round_changed = True
                    if _unroll_const_loops(blk):
                        round_changed = True
                    if _index_loops(blk):
                        round_changed = True
                    if _loop_over_comp(blk):
                        round_changed = True
                    if _iter_next_loops(blk):
                        round_changed = True
                    if _any_all(blk, lambda i, blk=blk: _reads_after(new, blk, i)):
                        round_changed = True
                    if _fold_block(blk, lambda i, blk=blk: _reads_after(new, blk, i)):
                        round_changed = True
            if isinstance(owner, ast.Try):
                for h in owner.handlers:
                    if _fold_block(h.body, lambda i, b=h.body: _reads_after(new, b, i)):
                        round_changed = True
        if round_changed:
            changed = True
            ast.fix_missing_locations(new)
            for parent in ast.walk(new):
                for child in ast.iter_child_nodes(parent):
                    child.parent = parent
        else:
            break
    if _comp_nnf(new):
        changed = True
    for st in new.body:
        if alpha(st):
            changed = True
    if _ior_update(new):
        changed = True
    if _exc_traceback(new):
        changed = True
    fk = _FromKeys()
    for k, st in enumerate(new.body):
        new.body[k] = fk.visit(st)
    if fk.changed:
        changed = True
        ast.fix_missing_locations(new)
    if _scalarize_dicts(new):
        changed = True
    mod_ = _module_of(func)
    if mod_ is not None:
        pz = _Positional(mod_)
        for k, st in enumerate(new.body):
            new.body[k] = pz.visit(st)
        if pz.changed:
            changed = True
    ci = _ConstIter(new, func)
    uc = _UnrollComp()
    for k, st in enumerate(new.body):
        new.body[k] = uc.visit(ci.visit(st))
    if ci.changed or uc.changed:
        changed = True
    sa = _SetAttr()
    for k, st in enumerate(new.body):
        new.body[k] = sa.visit(st)
    if sa.changed:
        changed = True
    sp = _Spell()
    sp.aliases = {}
    if mod_ is not None:
        for st_ in mod_.body:
            if isinstance(st_, ast.Assign) and len(st_.targets) == 1 and \
                    isinstance(st_.targets[0], ast.Name):
                v_ = st_.value
                if isinstance(v_, ast.Lambda) or (
                        isinstance(v_, ast.Call) and _opname(v_.func) in (
                            'attrgetter', 'itemgetter', 'methodcaller')):
                    sp.aliases[st_.targets[0].id] = v_
    for _round in range(3):
        before = sp.changed
        sp.changed = False
        for k, st in enumerate(new.body):
            new.body[k] = sp.visit(st)
        again = sp.changed
        sp.changed = sp.changed or before
        if not again:
            break
    if sp.changed:
        changed = True
        for st in new.body:
            alpha(st)
    if not changed:
        return func
    ast.fix_missing_locations(new)
    for parent in ast.walk(new):
        for child in ast.iter_child_nodes(parent):
            child.parent = parent
    new.parent = getattr(func, 'parent', None)
    new.normalised = True
    if hasattr(func, 'inlined_helpers'):
        new.inlined_helpers = func.inlined_helpers
    return new
