"""C front end: the compiler's own AST of the accelerator (clang
``-ast-dump=json`` with the build's include path and -D flags), reduced to a
small IR; a C CFG; helpers for the tables (PyMethodDef, kwlist, formats)."""
import json
import os
import shutil
import subprocess
import sysconfig

from .core import AnalysisError

C_REL = '_zope_interface_coptimizations.c'


# ---------------------------------------------------------------------------
# IR

class E:
    """expression / statement node"""
    __slots__ = ('k', 'a', 'line', 'parent')

    def __init__(self, k, *a, line=0):
        self.k = k
        self.a = list(a)
        self.line = line
        self.parent = None
        for x in self.a:
            if isinstance(x, E):
                x.parent = self
            elif isinstance(x, list):
                for y in x:
                    if isinstance(y, E):
                        y.parent = self

    def kids(self):
        for x in self.a:
            if isinstance(x, E):
                yield x
            elif isinstance(x, list):
                for y in x:
                    if isinstance(y, E):
                        yield y

    def walk(self):
        yield self
        for c in self.kids():
            yield from c.walk()

    def __repr__(self):
        return show(self)


def _first_eager_cond(e):
    """first conditional expression of e in evaluation order that is always
    evaluated (not inside the right operand of && / ||, nor inside an arm of
    another conditional)"""
    if e is None or not isinstance(e, E):
        return None
    if e.k == 'cond':
        inner = _first_eager_cond(e.a[0])
        return inner if inner is not None else e
    if e.k == 'bin' and e.a[0] in ('&&', '||'):
        return _first_eager_cond(e.a[1])
    for x in e.a:
        xs = x if isinstance(x, list) else [x]
        for y in xs:
            if isinstance(y, E):
                r = _first_eager_cond(y)
                if r is not None:
                    return r
    return None


def _replace_in(e, target, new):
    """deep copy of e with the node `target` replaced by (a copy of) `new`"""
    if e is target:
        return _replace_in(new, None, None)
    if not isinstance(e, E):
        return e
    args = []
    for x in e.a:
        if isinstance(x, list):
            args.append([_replace_in(y, target, new) for y in x])
        else:
            args.append(_replace_in(x, target, new))
    return E(e.k, *args, line=e.line)


def show(e):
    if e is None:
        return ''
    if not isinstance(e, E):
        return repr(e)
    k, a = e.k, e.a
    if k == 'var':
        return a[0]
    if k == 'field':
        return '%s%s%s' % (show(a[0]), '->' if a[2] else '.', a[1])
    if k == 'call':
        return '%s(%s)' % (a[0] if isinstance(a[0], str) else show(a[0]),
                           ', '.join(show(x) for x in a[1]))
    if k == 'const':
        return str(a[0])
    if k == 'null':
        return 'NULL'
    if k == 'str':
        return json.dumps(a[0])
    if k == 'un':
        return '%s(%s)' % (a[0], show(a[1]))
    if k == 'bin':
        return '(%s %s %s)' % (show(a[1]), a[0], show(a[2]))
    if k == 'assign':
        return '%s %s %s' % (show(a[1]), a[0], show(a[2]))
    if k == 'cond':
        return '(%s ? %s : %s)' % tuple(show(x) for x in a)
    if k == 'index':
        return '%s[%s]' % (show(a[0]), show(a[1]))
    if k == 'addr':
        return '&%s' % show(a[0])
    if k == 'deref':
        return '*%s' % show(a[0])
    if k == 'return':
        return 'return %s' % show(a[0])
    if k == 'decl':
        return '%s %s = %s' % (a[1], a[0], show(a[2])) if a[2] is not None \
            else '%s %s' % (a[1], a[0])
    if k == 'if':
        return 'if (%s)' % show(a[0])
    if k in ('while', 'dowhile'):
        return '%s (%s)' % (k, show(a[0]))
    if k == 'for':
        return 'for (%s; %s; %s)' % (show(a[0]), show(a[1]), show(a[2]))
    if k == 'expr':
        return show(a[0])
    if k == 'block':
        return '{...}'
    if k == 'goto':
        return 'goto %s' % a[0]
    if k == 'label':
        return '%s:' % a[0]
    if k == 'switch':
        return 'switch (%s)' % show(a[0])
    if k == 'case':
        return 'case %s:' % show(a[0])
    if k == 'default':
        return 'default:'
    return '%s%r' % (k, a)


STRIP = ('ImplicitCastExpr', 'ParenExpr', 'CStyleCastExpr', 'ConstantExpr',
         'ExprWithCleanups')


def _line(n, st):
    for key in ('range', 'loc'):
        r = n.get(key)
        if not r:
            continue
        b = r.get('begin', r)
        for sub in ('expansionLoc', 'spellingLoc'):
            if sub in b and 'line' in b[sub]:
                st['line'] = b[sub]['line']
                return st['line']
        if 'line' in b:
            st['line'] = b['line']
            return st['line']
    return st['line']


class Conv:
    def __init__(self):
        self.st = {'line': 0}

    def expr(self, n):
        e = self._expr(n)
        return normalise(e) if e is not None else None

    def _expr(self, n):
        if n is None:
            return None
        k = n.get('kind')
        line = _line(n, self.st)
        inner = n.get('inner', [])
        if k in STRIP:
            # NULL = (void*)0
            if k == 'CStyleCastExpr' and inner and \
                    n.get('type', {}).get('qualType') == 'void *':
                v = self.expr(inner[0])
                if v is not None and v.k == 'const' and v.a[0] == 0:
                    return E('null', line=line)
            return self.expr(inner[0]) if inner else None
        if k == 'DeclRefExpr':
            return E('var', n['referencedDecl']['name'], line=line)
        if k == 'MemberExpr':
            return E('field', self.expr(inner[0]), n['name'], n.get('isArrow', False),
                     line=line)
        if k == 'CallExpr':
            f = self.expr(inner[0])
            args = [self.expr(x) for x in inner[1:]]
            name = f.a[0] if f is not None and f.k == 'var' else f
            return E('call', name, args, line=line)
        if k == 'IntegerLiteral':
            return E('const', int(n['value']), line=line)
        if k == 'CharacterLiteral':
            return E('const', n.get('value'), line=line)
        if k == 'StringLiteral':
            v = n.get('value', '""')
            try:
                v = json.loads(v)
            except Exception:
                v = v.strip('"')
            return E('str', v, line=line)
        if k == 'UnaryOperator':
            op = n['opcode']
            e = self.expr(inner[0])
            if op == '&':
                return E('addr', e, line=line)
            if op == '*':
                return E('deref', e, line=line)
            return E('un', op + ('post' if n.get('isPostfix') and op in ('++', '--') else ''),
                     e, line=line)
        if k == 'BinaryOperator':
            op = n['opcode']
            a, b = self.expr(inner[0]), self.expr(inner[1])
            if op == '=':
                return E('assign', '=', a, b, line=line)
            return E('bin', op, a, b, line=line)
        if k == 'CompoundAssignOperator':
            return E('assign', n['opcode'], self.expr(inner[0]), self.expr(inner[1]),
                     line=line)
        if k == 'ConditionalOperator':
            return E('cond', *[self.expr(x) for x in inner], line=line)
        if k == 'ArraySubscriptExpr':
            return E('index', self.expr(inner[0]), self.expr(inner[1]), line=line)
        if k == 'UnaryExprOrTypeTraitExpr':
            return E('sizeof', n.get('argType', {}).get('qualType', ''), line=line)
        if k == 'InitListExpr':
            return E('initlist', [self.expr(x) for x in inner], line=line)
        if k == 'StmtExpr':
            return E('stmtexpr', self.stmt(inner[0]), line=line)
        if k == 'DesignatedInitExpr':
            return E('desig', [self.expr(x) for x in inner], line=line)
        if k == 'ImplicitValueInitExpr':
            return E('const', 0, line=line)
        if k == 'PredefinedExpr':
            return E('str', '__func__', line=line)
        if k == 'OffsetOfExpr':
            return E('offsetof', n.get('type', {}).get('qualType', ''), line=line)
        raise AnalysisError('C front end: unsupported expression kind %s at line %s'
                            % (k, line))

    def stmt(self, n):
        if n is None:
            return None
        k = n.get('kind')
        line = _line(n, self.st)
        inner = n.get('inner', [])
        if k == 'CompoundStmt':
            return E('block', [self.stmt(x) for x in inner], line=line)
        if k == 'IfStmt':
            c = self.expr(inner[0])
            t = self.stmt(inner[1])
            e = self.stmt(inner[2]) if len(inner) > 2 else None
            return E('if', c, t, e, line=line)
        if k == 'WhileStmt':
            return E('while', self.expr(inner[0]), self.stmt(inner[1]), line=line)
        if k == 'DoStmt':
            body = self.stmt(inner[0])
            folded = fold_macro_do(body, line)
            if folded is not None:
                return folded
            return E('dowhile', self.expr(inner[1]), body, line=line)
        if k == 'ForStmt':
            # init, (condvar), cond, inc, body
            init = self.stmt(inner[0]) if inner[0] else None
            cond = self.expr(inner[2]) if inner[2] else None
            inc = self.expr(inner[3]) if inner[3] else None
            return E('for', init, cond, inc, self.stmt(inner[4]), line=line)
        if k == 'ReturnStmt':
            return E('return', self.expr(inner[0]) if inner else None, line=line)
        if k == 'DeclStmt':
            ds = []
            for d in inner:
                if d.get('kind') != 'VarDecl':
                    continue
                init = None
                for x in d.get('inner', []):
                    if x.get('kind') not in ('FullComment',):
                        init = self.expr(x)
                ds.append(E('decl', d['name'], d.get('type', {}).get('qualType', ''),
                            init, line=_line(d, self.st)))
            if len(ds) == 1:
                return ds[0]
            return E('block', ds, line=line)
        if k == 'NullStmt':
            return E('block', [], line=line)
        if k == 'BreakStmt':
            return E('break', line=line)
        if k == 'ContinueStmt':
            return E('continue', line=line)
        if k == 'GotoStmt':
            return E('goto', n.get('targetLabelDeclId', ''), line=line)
        if k == 'LabelStmt':
            return E('block', [E('label', n.get('declId', n.get('name')), n.get('name'),
                                 line=line), self.stmt(inner[0])], line=line)
        if k == 'SwitchStmt':
            return E('switch', self.expr(inner[0]), self.stmt(inner[1]), line=line)
        if k == 'CaseStmt':
            return E('block', [E('case', self.expr(inner[0]), line=line),
                               self.stmt(inner[-1])], line=line)
        if k == 'DefaultStmt':
            return E('block', [E('default', line=line), self.stmt(inner[0])], line=line)
        # expression statement
        return E('expr', self.expr(n), line=line)


TPFLAGS = {1 << 24: 'PyLong_Check', 1 << 25: 'PyList_Check',
           1 << 26: 'PyTuple_Check', 1 << 27: 'PyBytes_Check',
           1 << 28: 'PyUnicode_Check', 1 << 29: 'PyDict_Check',
           1 << 30: 'PyExceptionClass_Check', 1 << 31: 'PyType_Check'}


def _const_value(e):
    if e is None:
        return None
    if e.k == 'const' and isinstance(e.a[0], int):
        return e.a[0]
    if e.k == 'bin' and e.a[0] == '<<':
        a, b = _const_value(e.a[1]), _const_value(e.a[2])
        if a is not None and b is not None:
            return a << b
    return None


def _strip_comma(e):
    while e is not None and e.k == 'bin' and e.a[0] == ',':
        e = e.a[2]
    return e


def normalise(e):
    """Fold expression-level CPython macros back into calls."""
    if e.k == 'addr' and e.a[0] is not None and e.a[0].k == 'var':
        nm = e.a[0].a[0]
        if nm == '_Py_NoneStruct':
            return E('var', 'Py_None', line=e.line)
        if nm == '_Py_NotImplementedStruct':
            return E('var', 'Py_NotImplemented', line=e.line)
        if nm == '_Py_TrueStruct':
            return E('var', 'Py_True', line=e.line)
        if nm == '_Py_FalseStruct':
            return E('var', 'Py_False', line=e.line)
    if e.k == 'index' and e.a[0] is not None and e.a[0].k == 'field' and \
            e.a[0].a[1] == 'ob_item':
        base = _strip_comma(e.a[0].a[0])
        return E('call', 'PyTuple_GET_ITEM', [base, e.a[1]], line=e.line)
    if e.k == 'call' and e.a[0] == 'PyType_HasFeature' and len(e.a[1]) == 2:
        flag = _const_value(e.a[1][1])
        t = e.a[1][0]
        if flag in TPFLAGS and t is not None and t.k == 'call' and \
                t.a[0] == 'Py_TYPE':
            return E('call', TPFLAGS[flag], [t.a[1][0]], line=e.line)
    if e.k == 'bin' and e.a[0] == ',':
        a = e.a[1]
        if a is not None and a.k == 'const':
            return e.a[2]
    return e


def fold_macro_do(body, line):
    """Py_CLEAR / Py_VISIT / Py_SETREF / Py_XSETREF expand to do{...}while(0);
    fold the known shapes back into one call node."""
    if body is None or body.k != 'block':
        return None
    decls = [s for s in body.a[0] if s is not None and s.k == 'decl']
    names = [d.a[0] for d in decls]
    if '_tmp_op_ptr' in names and '_tmp_old_op' in names:
        d = [x for x in decls if x.a[0] == '_tmp_op_ptr'][0]
        tgt = d.a[2]
        if tgt is not None and tgt.k == 'addr':
            return E('expr', E('call', 'Py_CLEAR', [tgt.a[0]], line=line), line=line)
    if len(body.a[0]) == 1 and body.a[0][0] is not None and body.a[0][0].k == 'if':
        i = body.a[0][0]
        inner = i.a[1]
        if inner is not None and inner.k == 'block':
            dn = [s.a[0] for s in inner.a[0] if s is not None and s.k == 'decl']
            if dn == ['vret']:
                return E('expr', E('call', 'Py_VISIT', [i.a[0]], line=line), line=line)
    return None


def fold_assure_dict(stmt):
    """ASSURE_DICT(N): if (N == NULL) { N = PyDict_New(); if (N == NULL) return NULL; }"""
    if stmt.k != 'if' or stmt.a[2] is not None:
        return None
    c = stmt.a[0]
    if c.k != 'bin' or c.a[0] != '==' or c.a[2] is None or c.a[2].k != 'null':
        return None
    tgt = c.a[1]
    body = stmt.a[1]
    if body is None or body.k != 'block' or len(body.a[0]) != 2:
        return None
    s1, s2 = body.a[0]
    if s1.k == 'expr' and s1.a[0].k == 'assign' and show(s1.a[0].a[1]) == show(tgt) \
            and s1.a[0].a[2].k == 'call' and s1.a[0].a[2].a[0] == 'PyDict_New' \
            and s2.k == 'if':
        return E('expr', E('call', 'ASSURE_DICT', [tgt], line=stmt.line), line=stmt.line)
    return None


# ---------------------------------------------------------------------------

class CFunc:
    def __init__(self, name, params, body, ret, line):
        self.name = name
        self.params = params    # [(name, type)]
        self.body = body
        self.ret = ret
        self.line = line


class CUnit:
    def __init__(self, root):
        self.root = root
        self.path = os.path.join(root, 'src', 'zope', 'interface', C_REL)
        self.funcs = {}
        self.structs = {}       # name -> [(field, type)]
        self.globals = {}       # name -> (type, init E)
        self.labels = {}        # declId -> name
        self._load()

    def _load(self):
        if not os.path.exists(self.path):
            raise AnalysisError('C source not found: %s' % self.path)
        clang = shutil.which('clang')
        if not clang:
            raise AnalysisError('clang not found (C side cannot be analysed)')
        inc = sysconfig.get_paths()['include']
        if not os.path.exists(os.path.join(inc, 'Python.h')):
            raise AnalysisError('Python.h not found under %s' % inc)
        flags = [f for f in (sysconfig.get_config_var('CFLAGS') or '').split()
                 if f.startswith(('-D', '-U'))]
        cmd = [clang, '-fsyntax-only', '-I' + inc] + flags + [
            '-Xclang', '-ast-dump=json', self.path]
        r = subprocess.run(cmd, capture_output=True)
        if r.returncode != 0:
            raise AnalysisError('clang failed on the accelerator: %s'
                                % r.stderr.decode()[-400:])
        self.cmd = ' '.join(cmd)
        d = json.loads(r.stdout)
        cur = None
        conv = Conv()
        for n in d['inner']:
            loc = n.get('loc', {})
            f = loc.get('file') or loc.get('spellingLoc', {}).get('file') or \
                loc.get('expansionLoc', {}).get('file')
            if f:
                cur = f
            if not (cur and cur.endswith(C_REL)):
                continue
            k = n['kind']
            if k == 'FunctionDecl':
                body = None
                params = []
                for c in n.get('inner', []):
                    if c.get('kind') == 'ParmVarDecl':
                        params.append((c.get('name', ''), c.get('type', {}).get('qualType', '')))
                    elif c.get('kind') == 'CompoundStmt':
                        body = c
                if body is None:
                    continue
                conv.st['line'] = n.get('loc', {}).get('line', conv.st['line'])
                _line(n, conv.st)
                b = conv.stmt(body)
                post(b)
                self.funcs[n['name']] = CFunc(
                    n['name'], params, b,
                    n.get('type', {}).get('qualType', '').split('(')[0].strip(),
                    conv.st['line'])
            elif k == 'RecordDecl' or k == 'TypedefDecl':
                rec = n
                if k == 'TypedefDecl':
                    continue
                fields = [(c['name'], c.get('type', {}).get('qualType', ''))
                          for c in n.get('inner', []) if c.get('kind') == 'FieldDecl']
                self.structs[n.get('name') or ('anon%s' % n.get('id'))] = fields
                self.structs['#' + n.get('id', '')] = fields
            elif k == 'VarDecl':
                init = None
                for c in n.get('inner', []):
                    try:
                        init = conv.expr(c)
                    except AnalysisError:
                        init = None
                self.globals[n['name']] = (n.get('type', {}).get('qualType', ''), init)
        # typedef struct {...} LB; : map typedef names to anonymous records
        for n in d['inner']:
            if n['kind'] == 'TypedefDecl' and n.get('name') in (
                    'LB', 'VB', 'SB', 'IB', 'CPB', 'Spec', 'OSD'):
                for c in n.get('inner', []):
                    od = c.get('ownedTagDecl') or {}
                    for cc in c.get('inner', []):
                        dd = cc.get('decl') or {}
                        if dd.get('id') and ('#' + dd['id']) in self.structs:
                            self.structs[n['name']] = self.structs['#' + dd['id']]
                    if od.get('id') and ('#' + od['id']) in self.structs:
                        self.structs[n['name']] = self.structs['#' + od['id']]

    def func(self, name):
        if name not in self.funcs:
            raise AnalysisError('anchor vanished: C function %s' % name)
        return self.funcs[name]

    def method_table(self, name):
        """PyMethodDef table -> [(pyname, cfunc, flags text)]"""
        g = self.globals.get(name)
        if g is None or g[1] is None:
            raise AnalysisError('anchor vanished: method table %s' % name)
        out = []
        for row in g[1].a[0]:
            if row is None or row.k != 'initlist':
                continue
            cells = row.a[0]
            if not cells or cells[0] is None or cells[0].k != 'str':
                continue
            fn = cells[1]
            while fn is not None and fn.k not in ('var',):
                ks = list(fn.kids())
                fn = ks[0] if ks else None
            out.append((cells[0].a[0], fn.a[0] if fn is not None else None,
                        show(cells[2]) if len(cells) > 2 else ''))
        return out


def post(b):
    """Post-pass: fold ASSURE_DICT, fix parents."""
    for n in list(b.walk()):
        if n.k == 'block':
            new = []
            for s in n.a[0]:
                if s is None:
                    continue
                f = fold_assure_dict(s) if s.k == 'if' else None
                new.append(f if f is not None else s)
            n.a[0] = new
    for n in b.walk():
        for c in n.kids():
            c.parent = n


_unit_cache = {}


def unit(root):
    if root not in _unit_cache:
        _unit_cache[root] = CUnit(root)
    return _unit_cache[root]


# ---------------------------------------------------------------------------
# C CFG (statement level)

class CNode:
    __slots__ = ('id', 'kind', 'e', 'succ', 'pred')

    def __init__(self, nid, kind, e=None):
        self.id = nid
        self.kind = kind      # entry exit stmt test
        self.e = e
        self.succ = []
        self.pred = []

    def __repr__(self):
        return '<%d %s %s>' % (self.id, self.kind, show(self.e)[:70])

    @property
    def line(self):
        return self.e.line if self.e is not None else 0


class CCFG:
    def __init__(self, func):
        self.func = func
        self.nodes = []
        self.entry = self._new('entry')
        self.exit = self._new('exit')
        self._loops = []
        self._labels = {}
        self._gotos = []
        self._switch = []
        ends = self._stmt(func.body, [(self.entry, '')])
        for n, lab in ends:
            self._edge(n, self.exit, lab or 'fallthrough')
        for n, target in self._gotos:
            if target not in self._labels:
                raise AnalysisError('goto to unknown label in %s' % func.name)
            self._edge(n, self._labels[target], 'goto')

    def _new(self, kind, e=None):
        n = CNode(len(self.nodes), kind, e)
        self.nodes.append(n)
        return n

    def _edge(self, a, b, lab=''):
        a.succ.append((b, lab))
        b.pred.append((a, lab))

    def _link(self, fr, n):
        for a, lab in fr:
            self._edge(a, n, lab)

    def _cond(self, c, fr):
        """short-circuit aware condition: returns (true frontier, false frontier)"""
        if c is not None and c.k == 'bin' and c.a[0] == '&&':
            t1, f1 = self._cond(c.a[1], fr)
            t2, f2 = self._cond(c.a[2], t1)
            return t2, f1 + f2
        if c is not None and c.k == 'bin' and c.a[0] == '||':
            t1, f1 = self._cond(c.a[1], fr)
            t2, f2 = self._cond(c.a[2], f1)
            return t1 + t2, f2
        if c is not None and c.k == 'un' and c.a[0] == '!':
            t, f = self._cond(c.a[1], fr)
            return f, t
        n = self._new('test', c)
        self._link(fr, n)
        return [(n, 'T')], [(n, 'F')]

    def _stmt(self, s, fr):
        if s is None:
            return fr
        k = s.k
        # x = c ? a : b;  /  T x = c ? a : b;  /  return c ? a : b;  are the
        # if/else statements (the test, then exactly one arm)
        low = None
        if k == 'expr' and s.a[0] is not None and s.a[0].k == 'assign' and \
                s.a[0].a[2] is not None and s.a[0].a[2].k == 'cond' and s.a[0].a[0] == '=':
            asg, c = s.a[0], s.a[0].a[2]
            low = (c.a[0],
                   E('expr', E('assign', asg.a[0], asg.a[1], c.a[1], line=s.line), line=s.line),
                   E('expr', E('assign', asg.a[0], asg.a[1], c.a[2], line=s.line), line=s.line))
        elif k == 'return' and s.a[0] is not None and s.a[0].k == 'cond':
            c = s.a[0]
            low = (c.a[0], E('return', c.a[1], line=s.line), E('return', c.a[2], line=s.line))
        if low is None and k in ('expr', 'return', 'decl'):
            # a conditional expression anywhere else in a simple statement (a call
            # argument, an initialiser): the statement with the test first and then
            # exactly one arm - unless it sits in a lazily evaluated operand
            root = s.a[0] if k != 'decl' else s.a[2]
            c = _first_eager_cond(root)
            if c is not None:
                low = (c.a[0], _replace_in(s, c, c.a[1]), _replace_in(s, c, c.a[2]))
        if low is not None:
            t, f = self._cond(low[0], fr)
            return self._stmt(low[1], t) + self._stmt(low[2], f)
        if k == 'block':
            for x in s.a[0]:
                fr = self._stmt(x, fr)
            return fr
        if k == 'if':
            t, f = self._cond(s.a[0], fr)
            a = self._stmt(s.a[1], t)
            b = self._stmt(s.a[2], f) if s.a[2] is not None else f
            return a + b
        if k == 'while':
            head = self._new('stmt', E('loophead', line=s.line))
            self._link(fr, head)
            t, f = self._cond(s.a[0], [(head, '')])
            after = []
            self._loops.append((head, after))
            end = self._stmt(s.a[1], t)
            self._loops.pop()
            for n, lab in end:
                self._edge(n, head, lab or 'loop')
            return f + after
        if k == 'dowhile':
            head = self._new('stmt', E('loophead', line=s.line))
            self._link(fr, head)
            after = []
            self._loops.append((head, after))
            end = self._stmt(s.a[1], [(head, '')])
            self._loops.pop()
            t, f = self._cond(s.a[0], end)
            for n, lab in t:
                self._edge(n, head, lab or 'loop')
            return f + after
        if k == 'for':
            fr = self._stmt(s.a[0], fr)
            head = self._new('stmt', E('loophead', line=s.line))
            self._link(fr, head)
            if s.a[1] is not None:
                t, f = self._cond(s.a[1], [(head, '')])
            else:
                t, f = [(head, '')], []
            after = []
            inc = self._new('stmt', E('expr', s.a[2], line=s.line)) \
                if s.a[2] is not None else head
            self._loops.append((inc, after))
            end = self._stmt(s.a[3], t)
            self._loops.pop()
            for n, lab in end:
                self._edge(n, inc, lab or 'loop')
            if inc is not head:
                self._edge(inc, head, 'loop')
            return f + after
        if k == 'switch':
            n = self._new('test', s.a[0])
            self._link(fr, n)
            after = []
            self._loops.append((None, after))
            self._switch.append({'node': n, 'default': False})
            end = self._stmt(s.a[1], [])
            sw = self._switch.pop()
            self._loops.pop()
            out = end + after
            if not sw['default']:
                out.append((n, 'nomatch'))
            return out
        if k in ('case', 'default'):
            n = self._new('stmt', s)
            self._link(fr, n)
            sw = self._switch[-1]
            self._edge(sw['node'], n, show(s))
            if k == 'default':
                sw['default'] = True
            return [(n, '')]
        if k == 'break':
            n = self._new('stmt', s)
            self._link(fr, n)
            self._loops[-1][1].append((n, 'break'))
            return []
        if k == 'continue':
            n = self._new('stmt', s)
            self._link(fr, n)
            tgt = None
            for t, _ in reversed(self._loops):
                if t is not None:
                    tgt = t
                    break
            self._edge(n, tgt, 'continue')
            return []
        if k == 'return':
            n = self._new('stmt', s)
            self._link(fr, n)
            self._edge(n, self.exit, 'return')
            return []
        if k == 'goto':
            n = self._new('stmt', s)
            self._link(fr, n)
            self._gotos.append((n, s.a[0]))
            return []
        if k == 'label':
            n = self._new('stmt', s)
            self._link(fr, n)
            self._labels[s.a[0]] = n
            return [(n, '')]
        n = self._new('stmt', s)
        self._link(fr, n)
        return [(n, '')]

    # queries (same semantics as the Python CFG)
    def reach(self, start, avoid=None, forward=True, include_start=False,
              skip_edge=None):
        starts = start if isinstance(start, (list, tuple, set)) else [start]
        seen = set()
        todo = []
        for s in starts:
            if include_start:
                if avoid and avoid(s):
                    continue
                seen.add(s.id)
            todo.append(s)
        while todo:
            n = todo.pop()
            for m, lab in (n.succ if forward else n.pred):
                if m.id in seen or (avoid and avoid(m)):
                    continue
                if skip_edge is not None and forward and skip_edge(n, lab, m):
                    continue
                seen.add(m.id)
                todo.append(m)
        return seen

    def must_pass_after(self, start, pred, target=None):
        target = target or self.exit
        return target.id not in self.reach(start, avoid=pred)

    def dominated_by(self, target, pred):
        return target.id not in self.reach(self.entry, avoid=pred)

    def paths(self, limit=20000):
        out = []
        maxv = {n.id: (2 if (n.e is not None and n.e.k == 'loophead') else 1)
                for n in self.nodes}

        def rec(n, path, visits):
            if len(out) > limit:
                raise AnalysisError('too many paths in %s' % self.func.name)
            if n is self.exit:
                out.append(list(path) + [(n, '')])
                return
            for m, lab in n.succ:
                c = visits.get(m.id, 0)
                if c >= maxv[m.id]:
                    continue
                visits[m.id] = c + 1
                path.append((n, lab))
                rec(m, path, visits)
                path.pop()
                visits[m.id] = c
        rec(self.entry, [], {self.entry.id: 1})
        return out


_ccfg = {}


def ccfg(func):
    if id(func) not in _ccfg:
        _ccfg[id(func)] = CCFG(func)
    return _ccfg[id(func)]


def calls(e, name=None):
    """call nodes under e (evaluation order: args before the call)."""
    out = []
    if e is None:
        return out

    def rec(x):
        for c in x.kids():
            rec(c)
        if x.k == 'call' and (name is None or x.a[0] == name):
            out.append(x)
    rec(e)
    return out


# ---------------------------------------------------------------------------
# definitions / uses on the C CFG

def c_assigned(n):
    """local names (re)bound at CFG node n -> {name: value E | None}"""
    out = {}
    e = n.e
    if e is None:
        return out

    def rec(x):
        if x.k == 'assign' and x.a[1] is not None and x.a[1].k == 'var':
            v = x.a[2]
            # chained a = b = c
            while v is not None and v.k == 'assign':
                v = v.a[2]
            out[x.a[1].a[0]] = v if x.a[0] == '=' else None
        if x.k == 'decl':
            out[x.a[0]] = x.a[2]
        if x.k == 'un' and x.a[0].startswith(('++', '--')) and x.a[1].k == 'var':
            out[x.a[1].a[0]] = None
        if x.k == 'addr' and x.a[0] is not None and x.a[0].k == 'var' and \
                x.parent is not None and x.parent.k == 'call':
            out[x.a[0].a[0]] = None
        for c in x.kids():
            rec(c)
    rec(e)
    return out


def c_reaching(cfg, node, var):
    """[(def node, value E|None)] reaching ``node``; entry = parameter."""
    seen = set()
    out = []
    todo = [p for p, _ in node.pred]
    while todo:
        n = todo.pop()
        if n.id in seen:
            continue
        seen.add(n.id)
        if n is cfg.entry:
            out.append((n, None))
            continue
        a = c_assigned(n)
        if var in a:
            out.append((n, a[var]))
            continue
        todo.extend(p for p, _ in n.pred)
    return out


def node_calls(n, name=None):
    return calls(n.e, name) if n.e is not None else []


def nodes_calling(cfg, name):
    return [n for n in cfg.nodes if node_calls(n, name)]


def returns(cfg):
    return [n for n in cfg.nodes if n.e is not None and n.e.k == 'return']


def is_var(e, name=None):
    return e is not None and e.k == 'var' and (name is None or e.a[0] == name)


def is_field(e, base, name):
    return e is not None and e.k == 'field' and e.a[1] == name and is_var(e.a[0], base)


def witness(cfg, start, avoid, target=None):
    target = target or cfg.exit
    prev = {start.id: None}
    todo = [start]
    while todo:
        n = todo.pop(0)
        if n is target:
            break
        for m, lab in n.succ:
            if m.id in prev or (avoid and avoid(m)):
                continue
            prev[m.id] = (n, lab)
            todo.append(m)
    if target.id not in prev:
        return None
    path = []
    cur = target
    while prev[cur.id] is not None:
        n, lab = prev[cur.id]
        path.append('%s%s' % (show(n.e)[:70], (' [%s]' % lab) if lab else ''))
        cur = n
    return list(reversed(path))


def c_resolve(cfg, node, e, depth=3):
    """Replace a local variable by the value of its single reaching
    definition (field read, other variable or call), repeatedly."""
    while depth > 0 and e is not None and e.k == 'var':
        defs = c_reaching(cfg, node, e.a[0])
        if len(defs) != 1 or defs[0][1] is None or defs[0][0] is cfg.entry:
            break
        node, e = defs[0]
        depth -= 1
    return e
