"""Path summaries with resolved expressions.

For every enumerated path of a function: the canonical facts established by
the branches taken, the ordered effect events (calls, stores, deletes) and the
returned value - all with local variables replaced by what they were assigned
from along *that* path (parameters, attributes, calls).  Loop variables become
``EACH(<iterated expr>)``.  Rules written over these summaries do not depend on
local names, temporaries, if/else orientation, early returns, `continue`
guards or conditional expressions.
"""
import ast
import copy

from .core import AnalysisError, norm_src
from .cfg import cfg_of, header_expr
from .facts import canon
from .pyfront import clone, FUNC, eval_order, match, same

MAX_NODES = 200


class Event:
    __slots__ = ('kind', 'node', 'raw', 'r', 'val')

    def __init__(self, kind, node, raw, r, val=None):
        self.kind = kind      # call | store | del | aug
        self.node = node
        self.raw = raw
        self.r = r            # resolved expression (call / store target)
        self.val = val        # resolved stored value

    def src(self):
        return norm_src(self.r)

    def __repr__(self):
        if self.kind == 'store':
            return '%s = %s' % (norm_src(self.r), norm_src(self.val))
        return '%s %s' % (self.kind, norm_src(self.r))


def _fold_arith(e):
    """value of +, -, * over int literals (not a bare literal), else None"""
    def ev(x):
        if isinstance(x, ast.Constant) and type(x.value) is int:
            return x.value
        if isinstance(x, ast.BinOp) and isinstance(x.op, (ast.Add, ast.Sub, ast.Mult)):
            a, b = ev(x.left), ev(x.right)
            if a is None or b is None:
                return None
            return a + b if isinstance(x.op, ast.Add) else \
                (a - b if isinstance(x.op, ast.Sub) else a * b)
        if isinstance(x, ast.UnaryOp) and isinstance(x.op, ast.USub):
            a = ev(x.operand)
            return None if a is None else -a
        return None
    if isinstance(e, ast.Constant):
        return None
    return ev(e)


class PathSummary:
    def __init__(self):
        self.facts = {}
        self.order = []       # [(canon, truth, n events before)] in path order
        self.order_nodes = []  # aligned: (cfg node, edge label)
        self.order_ast = {}    # index into order -> resolved AST (positions kept)
        self.events = []
        self.ret = None
        self.ret_node = None
        self.kind = 'fall'    # return | raise | fall
        self.raised = None
        self.path = None
        self.env = {}
        self.infeasible = False

    def calls(self, pattern):
        return [e for e in self.events if e.kind == 'call'
                and match(pattern, e.r) is not None]

    def stores(self, pattern=None):
        return [e for e in self.events if e.kind in ('store', 'aug')
                and (pattern is None or match(pattern, e.r) is not None)]

    def dels(self, pattern=None):
        return [e for e in self.events if e.kind == 'del'
                and (pattern is None or match(pattern, e.r) is not None)]

    def ret_src(self):
        if self.kind == 'raise':
            return 'raise ' + (norm_src(self.raised) if self.raised is not None else '')
        return norm_src(self.ret) if self.ret is not None else 'None'

    def fact(self, text):
        return self.facts.get(text)

    def index(self, ev):
        return self.events.index(ev)

    def reenters_loop(self, cfg, k):
        """after the k-th fact of the path was established, can control reach
        the header of the innermost loop running at that point again?"""
        node, lab = self.order_nodes[k]
        header = None
        for n, l in self.path:
            if n is node:
                break
            if n.kind == 'iter' and l == 'iter':
                header = n
            elif n.kind == 'iter' and l == 'exhausted' and n is header:
                header = None
        if header is None:
            return False
        nxt = [m for m, l in node.succ if l == lab]
        return any(header.id in cfg.reach(m, include_start=True) for m in nxt)


class _Sub(ast.NodeTransformer):
    def __init__(self, env):
        self.env = env

    def visit_Name(self, node):
        if isinstance(node.ctx, ast.Load) and node.id in self.env:
            v = self.env[node.id]
            if v is not None:
                return clone(v)
        return node

    # do not substitute comprehension-bound names
    def _comp(self, node):
        bound = set()
        for g in node.generators:
            for n in ast.walk(g.target):
                if isinstance(n, ast.Name):
                    bound.add(n.id)
        outer = self.env
        self.env = {k: v for k, v in outer.items() if k not in bound}
        try:
            return self.generic_visit(node)
        finally:
            self.env = outer

    visit_ListComp = visit_SetComp = visit_GeneratorExp = visit_DictComp = _comp

    def visit_Lambda(self, node):
        return node


_PURE_CALLS = ('len', 'isinstance', 'tuple', 'issubclass', 'callable', 'type')


def _pure(test):
    """the condition has the same value whenever it is evaluated again on the
    same path (no calls other than a few builtins)"""
    for n in ast.walk(test):
        if isinstance(n, ast.Call):
            if not (isinstance(n.func, ast.Name) and n.func.id in _PURE_CALLS):
                return False
    return True


class _Lit(ast.NodeTransformer):
    """getattr(x, 'name') with a name that is a literal once locals are
    resolved reads x.name"""

    def visit_Call(self, node):
        self.generic_visit(node)
        if isinstance(node.func, ast.Name) and node.func.id == 'getattr' and \
                len(node.args) == 2 and not node.keywords and \
                isinstance(node.args[1], ast.Constant) and \
                isinstance(node.args[1].value, str) and node.args[1].value.isidentifier():
            return ast.copy_location(ast.Attribute(
                value=node.args[0], attr=node.args[1].value, ctx=ast.Load()), node)
        return node


def _lit_subscript(self, node):
    self.generic_visit(node)
    sl = node.slice
    if isinstance(sl, ast.Call) and isinstance(sl.func, ast.Name) and \
            sl.func.id == 'slice' and 1 <= len(sl.args) <= 3 and not sl.keywords and \
            not any(isinstance(a, ast.Starred) for a in sl.args):
        a = list(sl.args)
        if len(a) == 1:
            a = [None, a[0]]
        a += [None] * (3 - len(a))
        none = lambda x: x is None or (isinstance(x, ast.Constant) and x.value is None)
        node.slice = ast.Slice(lower=None if none(a[0]) else a[0],
                               upper=None if none(a[1]) else a[1],
                               step=None if none(a[2]) else a[2])
    return node


_Lit.visit_Subscript = _lit_subscript


def subst(expr, env):
    if expr is None:
        return None
    new = _Sub(env).visit(clone(expr))
    if any(isinstance(n, ast.Name) and n.id in ('getattr', 'slice') for n in ast.walk(new)):
        new = _Lit().visit(new)
    return new


def size(expr):
    return sum(1 for _ in ast.walk(expr))


class _Rename(ast.NodeTransformer):
    def __init__(self, old, new):
        self.old, self.new = old, new

    def visit_Name(self, node):
        if node.id == self.old and isinstance(node.ctx, ast.Load):
            return ast.copy_location(ast.Name(id=self.new, ctx=ast.Load()), node)
        return node


class _Unroll(ast.NodeTransformer):
    """[f(x) for x in <local bound to a short display>] is the display of
    f(e) for each element e (the elements were evaluated when the display was
    built, so only the evaluations of f remain, in order)"""

    def __init__(self, env):
        self.env = env
        self.done = 0

    def visit_ListComp(self, node):
        if len(node.generators) != 1:
            return node
        g = node.generators[0]
        if g.ifs or g.is_async or not isinstance(g.target, ast.Name):
            return node
        if not isinstance(g.iter, ast.Name) or self.env.get(g.iter.id) is None:
            return node
        it = self.env[g.iter.id]
        if not isinstance(it, (ast.Tuple, ast.List)) or not 1 <= len(it.elts) <= 4 \
                or any(isinstance(e, ast.Starred) for e in it.elts):
            return node
        if any(isinstance(x, (ast.Lambda, ast.ListComp, ast.SetComp, ast.DictComp,
                              ast.GeneratorExp, ast.NamedExpr))
               for x in ast.walk(node.elt)):
            return node
        elts = []
        for k, e in enumerate(it.elts):
            nm = '__unroll_%s_%d_%d' % (g.target.id, getattr(node, 'lineno', 0), k)
            self.env[nm] = e
            elts.append(_Rename(g.target.id, nm).visit(clone(node.elt)))
        self.done += 1
        return ast.copy_location(ast.List(elts=elts, ctx=ast.Load()), node)


def unroll_stmt(a, env):
    if not isinstance(a, (ast.Assign, ast.Return, ast.Expr)) or not any(
            isinstance(x, ast.ListComp) for x in ast.walk(a)):
        return a
    u = _Unroll(env)
    new = u.visit(clone(a))
    return new if u.done else a


def each(it):
    return ast.Call(func=ast.Name(id='EACH', ctx=ast.Load()), args=[it], keywords=[])


class Env(dict):
    """local bindings; every (re)binding of a name gets a fresh version so
    that two evaluations can be recognised as reading the same value"""

    def __init__(self):
        dict.__init__(self)
        self.ver = {}
        self._n = 0

    def __setitem__(self, k, v):
        self._n += 1
        self.ver[k] = self._n
        dict.__setitem__(self, k, v)

    def pop(self, k, *a):
        self._n += 1
        self.ver[k] = self._n
        return dict.pop(self, k, *a)

    def update(self, other):
        for k, v in other.items():
            self[k] = v

    def binding(self, expr):
        """versions of the local names read by a raw expression"""
        return tuple(sorted({(n.id, self.ver.get(n.id, 0)) for n in ast.walk(expr)
                             if isinstance(n, ast.Name)}))


def _reflexive(c):
    """`X is X` / `X == X` for a call-free X"""
    try:
        e = ast.parse(c, mode='eval').body
    except SyntaxError:
        return False
    return isinstance(e, ast.Compare) and len(e.ops) == 1 and \
        isinstance(e.ops[0], ast.Is) and \
        norm_src(e.left) == norm_src(e.comparators[0]) and _pure(e.left)


class _IfSimplify(ast.NodeTransformer):
    """a conditional expression whose (call-free) test the path decides
    elsewhere denotes the chosen branch on that path"""

    def __init__(self, facts):
        self.facts = facts
        self.changed = False
        self.derived = []

    def visit_BoolOp(self, node):
        self.generic_visit(node)
        # `a and b` known truthy on this path has the value of b (and a is
        # truthy); `a or b` known falsy has the value of b (and a is falsy)
        if True:
            # (the expression is the resolved value of a local that was tested:
            # the fact and this occurrence denote the same evaluation)
            c, pol = canon(node, True)
            t = self.facts.get(c)
            if t is not None:
                truthy = (t == pol)
                if isinstance(node.op, ast.And) and truthy or \
                        isinstance(node.op, ast.Or) and not truthy:
                    self.changed = True
                    for v in node.values:
                        self.derived.append((v, truthy))
                    return node.values[-1]
        return node

    def visit_IfExp(self, node):
        self.generic_visit(node)
        if _pure(node.test):
            c, pol = canon(node.test, True)
            t = self.facts.get(c)
            if t is not None:
                self.changed = True
                return node.body if (t == pol) else node.orelse
        return node


def _simplify_ifexps(ps):
    def has_ifexp(e):
        return e is not None and any(isinstance(x, (ast.IfExp, ast.BoolOp))
                                     for x in ast.walk(e))
    tr = _IfSimplify(ps.facts)
    for e in ps.events:
        if has_ifexp(e.r):
            e.r = tr.visit(clone(e.r))
        if has_ifexp(e.val):
            e.val = tr.visit(clone(e.val))
    if has_ifexp(ps.ret):
        ps.ret = tr.visit(clone(ps.ret))
    if has_ifexp(ps.raised):
        ps.raised = tr.visit(clone(ps.raised))
    if any(' if ' in c for c, t, p in ps.order):
        new_order = []
        for k, (c, t, p) in enumerate(ps.order):
            if ' if ' in c and not c.startswith(('ITER(', 'EXCEPT(')):
                try:
                    e = ast.parse(c, mode='eval').body
                except SyntaxError:
                    new_order.append((c, t, p))
                    continue
                if has_ifexp(e):
                    e2 = tr.visit(e)
                    c2, pol = canon(e2, True)
                    t2 = t if pol else (not t)
                    if c2 != c:
                        ps.facts.pop(c, None)
                        ps.facts[c2] = t2
                    new_order.append((c2, t2, p))
                    continue
            new_order.append((c, t, p))
        ps.order = new_order
    # a truthy conjunction / falsy disjunction established as ONE fact (a
    # boolean value held in a local and tested later) is the facts of its
    # operands
    new_order = []
    for c, t, p in ps.order:
        done = False
        if (' and ' in c or ' or ' in c) and not c.startswith(('ITER(', 'EXCEPT(')):
            try:
                e = ast.parse(c, mode='eval').body
            except SyntaxError:
                e = None
            if isinstance(e, ast.BoolOp) and (
                    (isinstance(e.op, ast.And) and t) or
                    (isinstance(e.op, ast.Or) and not t)):
                ps.facts.pop(c, None)
                for v in e.values:
                    c2, pol = canon(v, True)
                    t2 = t if pol else (not t)
                    ps.facts[c2] = t2
                    new_order.append((c2, t2, p))
                done = True
        if not done:
            new_order.append((c, t, p))
    ps.order = new_order


def _callee_mentions(func, call, name):
    """the called function is defined in func's module and mentions `name`
    (or cannot be identified as a plain module-level function / imported name)"""
    from .normalize import _module_of
    mod_ = _module_of(func)
    f = call.func
    if not isinstance(f, ast.Name):
        # method calls: answer conservatively only for receivers that are calls/attrs
        # of other objects - they cannot name a private module global of this module
        return any(isinstance(y, ast.Name) and y.id == name for y in ast.walk(f))
    if mod_ is None:
        return True
    for st in mod_.body:
        if isinstance(st, FUNC) and st.name == f.id:
            return any(isinstance(y, ast.Name) and y.id == name for y in ast.walk(st))
    return False


_SENT_CACHE = {}


def _sentinels(func):
    """names bound exactly once, at module level, to a fresh `object()`"""
    from .normalize import _module_of
    mod_ = _module_of(func)
    if mod_ is None:
        return frozenset()
    key = id(mod_)
    if key not in _SENT_CACHE:
        count, sent = {}, set()
        for st in ast.walk(mod_):
            if isinstance(st, ast.Name) and isinstance(st.ctx, ast.Store):
                count[st.id] = count.get(st.id, 0) + 1
        for st in mod_.body:
            if isinstance(st, ast.Assign) and len(st.targets) == 1 and \
                    isinstance(st.targets[0], ast.Name) and isinstance(st.value, ast.Call) and \
                    isinstance(st.value.func, ast.Name) and st.value.func.id == 'object' and \
                    not st.value.args and not st.value.keywords and \
                    count.get(st.targets[0].id) == 1:
                sent.add(st.targets[0].id)
        _SENT_CACHE[key] = frozenset(sent)
    return _SENT_CACHE[key]


_SPELL_HINT = ('filter(', 'map(', 'operator.', 'lambda', 'attrgetter', 'itemgetter',
               'methodcaller', '__getitem__', '__contains__', '*(')


def _spell_resolved(ps, func):
    """spelling normal forms that only show once locals are resolved (a helper's
    `filter(lambda ...)` result bound to a temporary and consumed by tuple(), an
    operator.* call on resolved operands ...): applied to the resolved expressions
    of events, result and facts"""
    from .normalize import _Spell, alpha, _module_of, _opname

    def hinted(e):
        if e is None:
            return False
        try:
            t = ast.unparse(e)
        except Exception:
            return False
        return any(h in t for h in _SPELL_HINT)
    sp = _Spell()
    sp.aliases = {}
    mod_ = _module_of(func)
    if mod_ is not None:
        for st_ in mod_.body:
            if isinstance(st_, ast.Assign) and len(st_.targets) == 1 and \
                    isinstance(st_.targets[0], ast.Name):
                v_ = st_.value
                if isinstance(v_, ast.Lambda) or (
                        isinstance(v_, ast.Call) and _opname(v_.func) in (
                            'attrgetter', 'itemgetter', 'methodcaller')):
                    sp.aliases[st_.targets[0].id] = v_

    def norm(e):
        if not hinted(e):
            return e
        new = clone(e)
        for _ in range(3):
            sp.changed = False
            new = sp.visit(new)
            if not sp.changed:
                break
        ast.fix_missing_locations(new)
        alpha(new)
        return new
    for e in ps.events:
        e.r = norm(e.r)
        if e.val is not None:
            e.val = norm(e.val)
    if ps.ret is not None:
        ps.ret = norm(ps.ret)
    if ps.raised is not None:
        ps.raised = norm(ps.raised)
    new_order = []
    for c, t, p in ps.order:
        if any(h in c for h in _SPELL_HINT) and not c.startswith(('EXCEPT(',)):
            inner, pre, post = c, '', ''
            if c.startswith('ITER(') and c.endswith(')'):
                inner, pre, post = c[5:-1], 'ITER(', ')'
            try:
                e = ast.parse(inner, mode='eval').body
                e2 = norm(e)
                if pre:
                    c2, t2 = pre + norm_src(e2) + post, t
                else:
                    c2, pol = canon(e2, True)
                    t2 = t if pol else (not t)
                if c2 != c:
                    ps.facts.pop(c, None)
                    ps.facts[c2] = t2
                new_order.append((c2, t2, p))
                continue
            except SyntaxError:
                pass
        new_order.append((c, t, p))
    ps.order = new_order


def _mark_stale(ps, stale, since):
    """a store/del through X[...] or X.attr since the last test may have
    changed what earlier call-free conditions about X evaluate to"""
    for e in ps.events[since:]:
        if e.kind in ('store', 'del', 'aug') and e.r is not None:
            root = e.r
            while isinstance(root, ast.Subscript):
                root = root.value
            txt = norm_src(root)
            for c in ps.facts:
                if txt in c:
                    stale.add(c)


def summarise(func, limit=6000, to_raise=True, lists=False):
    cfg = cfg_of(func)
    out = []
    for path in cfg.paths(limit=limit, to_raise=to_raise):
        ps = PathSummary()
        ps.path = path
        env = Env()
        fact_bind = {}
        stale = set()      # facts about storage that was written since
        nev = 0
        seen_iters = set()
        iterated = set()
        iter_bind = {}
        last = path[-1][0]
        for n, lab in path:
            a = n.ast
            if a is None:
                continue
            if n.kind == 'test':
                t = subst(a, env)
                c, pol = canon(t, True)
                if lab in ('T', 'F'):
                    truth = pol if lab == 'T' else (not pol)
                    # a test on a constant (flags introduced by the inliner,
                    # `while 1`) has only one feasible outcome
                    core = t
                    while isinstance(core, ast.UnaryOp) and isinstance(core.op, ast.Not):
                        core = core.operand
                    folded = _fold_arith(core)
                    if folded is not None:
                        # (counters summed over a folded loop: `0 + 1`)
                        nots_ = 0
                        x_ = t
                        while isinstance(x_, ast.UnaryOp) and isinstance(x_.op, ast.Not):
                            x_ = x_.operand
                            nots_ += 1
                        tv_ = bool(folded) if nots_ % 2 == 0 else not bool(folded)
                        if tv_ != (lab == 'T'):
                            ps.infeasible = True
                        continue
                    if isinstance(core, ast.Constant):
                        if bool(core.value) != truth:
                            ps.infeasible = True
                        continue          # decided: not a fact of the path
                    # a display (fresh tuple/list/dict) or a non-None constant
                    # is never None
                    if isinstance(core, ast.Compare) and len(core.ops) == 1 and \
                            isinstance(core.ops[0], (ast.Is, ast.IsNot)):
                        l_, r_ = core.left, core.comparators[0]
                        for a_, b_ in ((l_, r_), (r_, l_)):
                            if isinstance(b_, ast.Constant) and b_.value is None and (
                                    isinstance(a_, (ast.Tuple, ast.List, ast.Dict, ast.Set))
                                    or (isinstance(a_, ast.Constant)
                                        and a_.value is not None)):
                                isnone_claim = (c.endswith(' is None') and truth)
                                if isnone_claim:
                                    ps.infeasible = True
                    # membership in an empty display is decided
                    skip_fact = False
                    if isinstance(core, ast.Compare) and len(core.ops) == 1 and \
                            isinstance(core.ops[0], (ast.In, ast.NotIn)) and \
                            isinstance(core.comparators[0], (ast.Tuple, ast.Set)) and \
                            not core.comparators[0].elts:
                        val_ = isinstance(core.ops[0], ast.NotIn)
                        nots = 0
                        x_ = t
                        while isinstance(x_, ast.UnaryOp) and isinstance(x_.op, ast.Not):
                            x_ = x_.operand
                            nots += 1
                        tval = val_ if nots % 2 == 0 else not val_
                        if tval != (lab == 'T'):
                            ps.infeasible = True
                        continue
                    # `'k' in X` after `X['k'] = v` on this path (nothing that
                    # could remove the key in between) is decided
                    if isinstance(core, ast.Compare) and len(core.ops) == 1 and \
                            isinstance(core.ops[0], (ast.In, ast.NotIn)) and \
                            isinstance(core.left, ast.Constant):
                        cont_ = norm_src(core.comparators[0])
                        member_ = None
                        for e_ in reversed(ps.events):
                            if e_.kind == 'store' and isinstance(e_.r, ast.Subscript) \
                                    and norm_src(e_.r.value) == cont_:
                                if isinstance(e_.r.slice, ast.Constant) and \
                                        e_.r.slice.value == core.left.value:
                                    member_ = True
                                    break
                                continue
                            if e_.r is not None and cont_ in norm_src(e_.r):
                                rt_ = norm_src(e_.r)
                                if e_.kind == 'call' and rt_.startswith(
                                        (cont_ + '.update(', cont_ + '.get(',
                                         cont_ + '.setdefault(')):
                                    continue
                                if e_.kind == 'call' and rt_ == cont_:
                                    continue       # the call that produced it
                                break
                        if member_:
                            val_ = isinstance(core.ops[0], ast.In)
                            nots = 0
                            x_ = t
                            while isinstance(x_, ast.UnaryOp) and isinstance(x_.op, ast.Not):
                                x_ = x_.operand
                                nots += 1
                            tval = val_ if nots % 2 == 0 else not val_
                            if tval != (lab == 'T'):
                                ps.infeasible = True
                            continue
                    # a comparison of two literals is decided
                    if isinstance(core, ast.Compare) and len(core.ops) == 1 and \
                            isinstance(core.left, ast.Constant) and \
                            isinstance(core.comparators[0], ast.Constant) and \
                            isinstance(core.ops[0], (ast.Is, ast.IsNot, ast.Eq, ast.NotEq)):
                        lv, rv = core.left.value, core.comparators[0].value
                        op_ = core.ops[0]
                        if isinstance(op_, (ast.Is, ast.IsNot)):
                            same_ = (lv is rv) or (type(lv) is type(rv) and lv == rv)
                            val_ = same_ if isinstance(op_, ast.Is) else not same_
                        else:
                            val_ = (lv == rv) if isinstance(op_, ast.Eq) else (lv != rv)
                        # `core` is t without its leading nots
                        nots = 0
                        x_ = t
                        while isinstance(x_, ast.UnaryOp) and isinstance(x_.op, ast.Not):
                            x_ = x_.operand
                            nots += 1
                        tval = val_ if nots % 2 == 0 else not val_
                        if tval != (lab == 'T'):
                            ps.infeasible = True
                        skip_fact = True
                    # a display (tuple, list, dict ...) is never None
                    if not skip_fact and isinstance(core, ast.Compare) and len(core.ops) == 1 \
                            and isinstance(core.ops[0], (ast.Is, ast.IsNot)):
                        l_, r_ = core.left, core.comparators[0]
                        if isinstance(l_, ast.Constant) and l_.value is None:
                            l_, r_ = r_, l_
                        if isinstance(r_, ast.Constant) and r_.value is None and \
                                isinstance(l_, (ast.Tuple, ast.List, ast.Dict, ast.Set,
                                                ast.ListComp, ast.DictComp, ast.SetComp)):
                            val_ = not isinstance(core.ops[0], ast.Is)
                            nots = 0
                            x_ = t
                            while isinstance(x_, ast.UnaryOp) and isinstance(x_.op, ast.Not):
                                x_ = x_.operand
                                nots += 1
                            tval = val_ if nots % 2 == 0 else not val_
                            if tval != (lab == 'T'):
                                ps.infeasible = True
                            skip_fact = True
                    # identity against a module-level sentinel (`_NOTHING = object()`,
                    # bound once): the sentinel is itself, and it is neither the result
                    # of a call, nor a literal, nor another sentinel
                    if not skip_fact and isinstance(core, ast.Compare) and len(core.ops) == 1 \
                            and isinstance(core.ops[0], (ast.Is, ast.IsNot)):
                        sent_ = _sentinels(func)
                        l_, r_ = core.left, core.comparators[0]
                        if isinstance(r_, ast.Name) and r_.id in sent_ and not (
                                isinstance(l_, ast.Name) and l_.id in sent_):
                            l_, r_ = r_, l_
                        if isinstance(l_, ast.Name) and l_.id in sent_:
                            same_ = None
                            if isinstance(r_, ast.Name) and r_.id == l_.id:
                                same_ = True
                            elif isinstance(r_, ast.Name) and r_.id in sent_:
                                same_ = False
                            elif isinstance(r_, (ast.Constant, ast.Tuple, ast.List,
                                                 ast.Dict, ast.ListComp, ast.BinOp)):
                                same_ = False
                            elif isinstance(r_, ast.Call) and l_.id.startswith('_') and \
                                    not any(isinstance(y, ast.Name) and y.id == l_.id
                                            for y in ast.walk(r_)) and \
                                    not _callee_mentions(func, r_, l_.id):
                                # a private sentinel can only come out of a call it
                                # was handed to, or of a function of its own module
                                # that names it
                                same_ = False
                            if same_ is not None:
                                val_ = same_ if isinstance(core.ops[0], ast.Is) else not same_
                                nots = 0
                                x_ = t
                                while isinstance(x_, ast.UnaryOp) and isinstance(x_.op, ast.Not):
                                    x_ = x_.operand
                                    nots += 1
                                tval = val_ if nots % 2 == 0 else not val_
                                if tval != (lab == 'T'):
                                    ps.infeasible = True
                                skip_fact = True
                    if skip_fact:
                        continue
                    b = env.binding(a)
                    _mark_stale(ps, stale, nev)
                    nev = len(ps.events)
                    if c in ps.facts and ps.facts[c] != truth and c not in stale and (
                            _pure(t) or (_pure(a) and fact_bind.get(c) == b)):
                        ps.infeasible = True
                    stale.discard(c)
                    if not truth and _reflexive(c):
                        ps.infeasible = True
                    fact_bind[c] = b
                    ps.facts[c] = truth
                    ps.order_ast[len(ps.order)] = t
                    ps.order.append((c, truth, len(ps.events)))
                    ps.order_nodes.append((n, lab))
                for x in eval_order(a):
                    if isinstance(x, ast.Call):
                        r_ = subst(x, env)
                        if isinstance(r_, ast.Call):
                            ps.events.append(Event('call', n, x, r_))
                continue
            if n.kind == 'iter':
                if n.id not in seen_iters:
                    seen_iters.add(n.id)
                    for x in eval_order(a.iter):
                        if isinstance(x, ast.Call):
                            r_ = subst(x, env)
                            if isinstance(r_, ast.Call):
                                ps.events.append(Event('call', n, x, r_))
                it = subst(a.iter, env)
                # a local name iterated twice without rebinding denotes the
                # same object: the two loops agree on emptiness
                bind = env.binding(a.iter) if isinstance(a.iter, ast.Name) else None
                stable = _pure(it) or (bind is not None and
                                       iter_bind.get('ITER(%s)' % norm_src(it)) == bind)
                if bind is not None:
                    iter_bind.setdefault('ITER(%s)' % norm_src(it), bind)
                # a list/tuple display has a known emptiness
                disp = it
                while isinstance(disp, ast.Call) and isinstance(disp.func, ast.Name) and \
                        disp.func.id in ('reversed', 'list', 'tuple') and len(disp.args) == 1:
                    disp = disp.args[0]
                if (lists or isinstance(disp, ast.Tuple)) and \
                        isinstance(disp, (ast.List, ast.Tuple)) and (
                        any(not isinstance(x, ast.Starred) for x in disp.elts)
                        or not disp.elts):
                    if lab == 'iter' and not disp.elts:
                        ps.infeasible = True
                    if lab == 'exhausted' and n.id not in iterated and any(
                            not isinstance(x, ast.Starred) for x in disp.elts):
                        ps.infeasible = True
                if lab == 'iter':
                    iterated.add(n.id)
                    if isinstance(a.target, ast.Name):
                        env[a.target.id] = each(it) if size(it) < MAX_NODES else None
                    else:
                        def bind(t, val):
                            if isinstance(t, ast.Name):
                                env[t.id] = val
                            elif isinstance(t, (ast.Tuple, ast.List)):
                                for k, e in enumerate(t.elts):
                                    bind(e, None if val is None else ast.Subscript(
                                        value=val, slice=ast.Constant(value=k),
                                        ctx=ast.Load()))
                        bind(a.target, each(it) if size(it) < MAX_NODES else None)
                    c = 'ITER(%s)' % norm_src(it)
                    if ps.facts.get(c) is False and stable:
                        ps.infeasible = True
                    ps.facts[c] = True
                    ps.order_ast[len(ps.order)] = it
                    ps.order.append((c, True, len(ps.events)))
                    ps.order_nodes.append((n, lab))
                elif lab == 'exhausted':
                    c = 'ITER(%s)' % norm_src(it)
                    if n.id not in iterated:
                        # the loop body did not run on this path
                        if ps.facts.get(c) is True and stable:
                            ps.infeasible = True
                        ps.facts.setdefault(c, False)
                        ps.order.append((c, False, len(ps.events)))
                        ps.order_nodes.append((n, lab))
                continue
            if n.kind != 'stmt':
                continue
            h = header_expr(n)
            if h is None:
                continue
            if isinstance(a, ast.ExceptHandler):
                if a.name:
                    env[a.name] = None
                    # the caught exception is an object, never None
                    ps.facts['%s is None' % a.name] = False
                c = 'EXCEPT(%s)' % norm_src(a.type)
                ps.facts[c] = True
                ps.order.append((c, True, len(ps.events)))
                ps.order_nodes.append((n, lab))
                continue
            # calls in evaluation order, resolved with the environment *before*
            if h is a:
                a = h = unroll_stmt(a, env)
            for x in eval_order(h):
                if isinstance(x, ast.Call):
                    r_ = subst(x, env)
                    if isinstance(r_, ast.Call):      # (getattr(x, 'lit') reads x.lit)
                        ps.events.append(Event('call', n, x, r_))
                elif isinstance(x, (ast.Yield, ast.YieldFrom)):
                    ps.events.append(Event(
                        'yield' if isinstance(x, ast.Yield) else 'yieldfrom', n, x,
                        subst(x.value, env) if x.value is not None
                        else ast.Constant(value=None)))
            if isinstance(a, ast.Expr) and isinstance(a.value, ast.Call) and \
                    isinstance(a.value.func, ast.Name) and a.value.func.id == 'setattr' \
                    and len(a.value.args) == 3 and not a.value.keywords:
                # setattr(x, <name known on this path>, v) stores x.<name> = v
                nm = subst(a.value.args[1], env)
                if isinstance(nm, ast.Constant) and isinstance(nm.value, str) and \
                        nm.value.isidentifier():
                    if ps.events and ps.events[-1].kind == 'call' and \
                            ps.events[-1].raw is a.value:
                        ps.events.pop()
                    tgt = ast.Attribute(value=a.value.args[0], attr=nm.value,
                                        ctx=ast.Store())
                    ps.events.append(Event('store', n, tgt, subst(tgt, env),
                                           subst(a.value.args[2], env)))
            if lists and isinstance(a, ast.Expr):
                _track_list(a.value, env)
            if isinstance(a, ast.Assign):
                v = subst(a.value, env)
                for t in a.targets:
                    _assign(ps, n, t, v, env)
            elif isinstance(a, ast.AugAssign):
                v = subst(a.value, env)
                t = a.target
                if isinstance(t, ast.Name):
                    cur = env.get(t.id) or ast.Name(id=t.id, ctx=ast.Load())
                    new = ast.BinOp(left=clone(cur), op=a.op, right=v)
                    env[t.id] = new if size(new) < MAX_NODES else None
                else:
                    ps.events.append(Event('aug', n, a, subst(t, env),
                                           ast.BinOp(left=subst(t, env), op=a.op, right=v)))
            elif isinstance(a, ast.Delete):
                for t in a.targets:
                    if isinstance(t, ast.Name):
                        env.pop(t.id, None)
                        env[t.id] = None
                    else:
                        ps.events.append(Event('del', n, t, subst(t, env)))
            elif isinstance(a, ast.Return):
                ps.kind = 'return'
                ps.ret = subst(a.value, env) if a.value is not None else None
                ps.ret_node = n
            elif isinstance(a, ast.Raise):
                ps.kind = 'raise'
                ps.raised = subst(a.exc, env) if a.exc is not None else None
                ps.ret_node = n
            elif isinstance(a, (ast.With, ast.AsyncWith)):
                for it in a.items:
                    if it.optional_vars is not None and isinstance(it.optional_vars, ast.Name):
                        env[it.optional_vars.id] = None
        if last is cfg.raise_exit and ps.kind != 'raise':
            ps.kind = 'raise'
        ps.env = env
        if not ps.infeasible:
            _simplify_ifexps(ps)
            _spell_resolved(ps, func)
            out.append(ps)
    return out


def _listish(e):
    if isinstance(e, (ast.List, ast.ListComp)):
        return True
    if isinstance(e, ast.BinOp) and isinstance(e.op, ast.Add):
        return _listish(e.left) or _listish(e.right)
    if isinstance(e, ast.Call) and isinstance(e.func, ast.Name) and e.func.id == 'list' \
            and len(e.args) <= 1 and not e.keywords:
        return True
    return False


def _track_list(call, env):
    """L.append(x) / L.extend(y) / L.insert(0, x) on a local bound to a
    fresh list: the local now resolves to the extended content"""
    if not (isinstance(call, ast.Call) and isinstance(call.func, ast.Attribute)
            and isinstance(call.func.value, ast.Name) and not call.keywords):
        return
    L = call.func.value.id
    cur = env.get(L)
    if cur is None or not _listish(cur):
        return
    m = call.func.attr
    args = [subst(x, env) for x in call.args]
    new = None
    if m == 'append' and len(args) == 1:
        add = ast.List(elts=[args[0]], ctx=ast.Load())
        new = ast.List(elts=list(cur.elts) + [args[0]], ctx=ast.Load()) \
            if isinstance(cur, ast.List) else ast.BinOp(left=clone(cur), op=ast.Add(), right=add)
    elif m == 'extend' and len(args) == 1:
        y = args[0]
        if not _listish(y):
            y = ast.Call(func=ast.Name(id='list', ctx=ast.Load()), args=[y], keywords=[])
        new = ast.BinOp(left=clone(cur), op=ast.Add(), right=y)
    elif m == 'insert' and len(args) == 2 and isinstance(args[0], ast.Constant) \
            and args[0].value == 0:
        new = ast.List(elts=[args[1]] + list(cur.elts), ctx=ast.Load()) \
            if isinstance(cur, ast.List) else ast.BinOp(
                left=ast.List(elts=[args[1]], ctx=ast.Load()), op=ast.Add(), right=clone(cur))
    if new is not None and size(new) < MAX_NODES:
        for x in ast.walk(new):
            if not hasattr(x, 'lineno') and hasattr(cur, 'lineno'):
                x.lineno, x.col_offset = cur.lineno, cur.col_offset
        env[L] = new


def _assign(ps, n, t, v, env):
    if isinstance(t, ast.Name):
        env[t.id] = v if (v is not None and size(v) < MAX_NODES) else None
    elif isinstance(t, (ast.Tuple, ast.List)):
        known = isinstance(v, (ast.Tuple, ast.List)) and len(v.elts) == len(t.elts) \
            and not any(isinstance(x, ast.Starred) for x in list(v.elts) + list(t.elts))
        starred = any(isinstance(x, ast.Starred) for x in t.elts)
        for k, e in enumerate(t.elts):
            if isinstance(e, ast.Name):
                if known:
                    env[e.id] = v.elts[k]
                elif v is not None and not starred and size(v) < MAX_NODES:
                    env[e.id] = ast.Subscript(value=v, slice=ast.Constant(value=k),
                                              ctx=ast.Load())
                else:
                    env[e.id] = None
            elif known:
                _assign(ps, n, e, v.elts[k], env)
            elif v is not None and not isinstance(e, ast.Starred):
                _assign(ps, n, e, ast.Subscript(value=v, slice=ast.Constant(value=k),
                                                ctx=ast.Load()), env)
            else:
                _assign(ps, n, e, None, env)
    elif isinstance(t, (ast.Subscript, ast.Attribute)):
        ps.events.append(Event('store', n, t, subst(t, env), v))
    elif isinstance(t, ast.Starred):
        _assign(ps, n, t.value, None, env)


_sum_cache = {}


def summaries(func, normal_only=True, lists=False):
    """lists=True: the content of fresh local lists is tracked through
    append / extend / insert(0, x) (the local resolves to its content so far)"""
    key = (id(func), normal_only, lists)
    if key not in _sum_cache:
        ss = summarise(func, to_raise=not normal_only, lists=lists)
        if normal_only:
            ss = [s for s in ss if s.kind != 'raise' or s.ret_node is not None]
        _sum_cache[key] = ss
    return _sum_cache[key]


def normal(ss):
    return [s for s in ss if s.kind in ('return', 'fall')]
