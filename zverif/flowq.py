"""Flow queries on top of cfg + pattern matching, and loop polarity."""
import ast

from .core import AnalysisError, norm_src
from .cfg import cfg_of, header_expr
from .pyfront import (FUNC, eval_order, find_all, match, pat, walk_local,
                      strip_wrappers, dotted, same)


def node_matches(n, pattern, mode='eval'):
    h = header_expr(n)
    if h is None:
        return []
    if mode == 'exec':
        if isinstance(h, ast.stmt):
            env = match(pattern, h, 'exec')
            return [(h, env)] if env is not None else []
        return []
    return find_all(h, pattern, mode)


def nodes_with(cfg, pattern, mode='eval', where=None):
    out = []
    for n in cfg.nodes:
        if n.ast is None:
            continue
        ms = node_matches(n, pattern, mode)
        if where is not None:
            ms = [m for m in ms if where(m[0], m[1])]
        if ms:
            out.append(n)
    return out


def pred_of(pattern, mode='eval', where=None):
    cache = {}

    def pred(n):
        if n.id not in cache:
            if n.ast is None:
                cache[n.id] = False
            else:
                ms = node_matches(n, pattern, mode)
                if where is not None:
                    ms = [m for m in ms if where(m[0], m[1])]
                cache[n.id] = bool(ms)
        return cache[n.id]
    return pred


def any_pred(*preds):
    def pred(n):
        return any(p(n) for p in preds)
    return pred


def order_in_node(n, a, b):
    """True when expression a is evaluated before expression b inside the
    same CFG node."""
    h = header_expr(n)
    seq = [id(x) for x in eval_order(h)]
    return seq.index(id(a)) < seq.index(id(b))


def path_text(path):
    out = []
    for n, lab in path:
        if n.ast is None:
            out.append(n.kind)
            continue
        h = header_expr(n)
        s = norm_src(h).split('\n')[0][:70] if h is not None else n.kind
        out.append('%s%s' % (s, (' [%s]' % lab) if lab else ''))
    return out


def witness_path(cfg, start, avoid, target=None):
    """A concrete path start -> target that avoids ``avoid`` nodes (BFS)."""
    target = target or cfg.exit
    prev = {start.id: None}
    todo = [start]
    while todo:
        n = todo.pop(0)
        if n is target:
            break
        for m, lab in n.succ:
            if m.id in prev or (avoid and avoid(m)):
                continue
            prev[m.id] = (n, lab)
            todo.append(m)
    if target.id not in prev:
        return None
    path = [(target, '')]
    cur = target
    while prev[cur.id] is not None:
        n, lab = prev[cur.id]
        path.append((n, lab))
        cur = n
    return path_text(list(reversed(path)))


# ---------------------------------------------------------------------------
# local single-assignment resolution

def local_assignments(func, name):
    out = []
    for n in walk_local(func):
        if isinstance(n, ast.Assign):
            for t in n.targets:
                if isinstance(t, ast.Name) and t.id == name:
                    out.append(n.value)
                elif isinstance(t, (ast.Tuple, ast.List)):
                    for e in ast.walk(t):
                        if isinstance(e, ast.Name) and e.id == name:
                            out.append(None)
        elif isinstance(n, (ast.AugAssign, ast.AnnAssign)):
            t = n.target
            if isinstance(t, ast.Name) and t.id == name:
                out.append(None)
        elif isinstance(n, (ast.For, ast.comprehension)):
            for e in ast.walk(n.target):
                if isinstance(e, ast.Name) and e.id == name:
                    out.append(None)
        elif isinstance(n, ast.NamedExpr):
            if n.target.id == name:
                out.append(None)
        elif isinstance(n, (ast.With,)):
            for it in n.items:
                if it.optional_vars is not None:
                    for e in ast.walk(it.optional_vars):
                        if isinstance(e, ast.Name) and e.id == name:
                            out.append(None)
    return out


def resolve_local(func, expr, depth=4):
    """Replace a Name bound exactly once in ``func`` (plain assignment) by
    its value expression, repeatedly."""
    while depth > 0 and isinstance(expr, ast.Name) and func is not None:
        params = {a.arg for a in func.args.args + func.args.kwonlyargs
                  + getattr(func.args, 'posonlyargs', [])} \
            if not isinstance(func, ast.Lambda) else set()
        if expr.id in params:
            break
        vals = local_assignments(func, expr.id)
        if len(vals) != 1 or vals[0] is None:
            break
        expr = vals[0]
        depth -= 1
    return expr


# ---------------------------------------------------------------------------
# polarity

def iter_polarity(expr, func=None):
    """(source expression, 'fwd'|'rev'|'mixed') of an iterated expression."""
    direction = 1
    for _ in range(12):
        expr = strip_wrappers(expr)
        expr = resolve_local(func, expr) if func is not None else expr
        expr = strip_wrappers(expr)
        if isinstance(expr, ast.Call) and isinstance(expr.func, ast.Name) \
                and expr.func.id == 'reversed' and len(expr.args) == 1:
            direction = -direction
            expr = expr.args[0]
            continue
        if isinstance(expr, ast.Subscript) and isinstance(expr.slice, ast.Slice):
            s = expr.slice
            if s.lower is None and s.upper is None and s.step is not None:
                st = s.step
                if isinstance(st, ast.UnaryOp) and isinstance(st.op, ast.USub) \
                        and isinstance(st.operand, ast.Constant) \
                        and st.operand.value == 1:
                    direction = -direction
                    expr = expr.value
                    continue
                if isinstance(st, ast.Constant) and st.value == 1:
                    expr = expr.value
                    continue
                return expr, 'mixed'
            if s.lower is None and s.upper is None and s.step is None:
                expr = expr.value
                continue
        if isinstance(expr, ast.IfExp):
            return expr, 'mixed'
        if isinstance(expr, ast.Call) and isinstance(expr.func, ast.Name) \
                and expr.func.id in ('sorted', 'set', 'frozenset'):
            return expr, 'mixed'
        break
    return expr, ('fwd' if direction > 0 else 'rev')


def for_loops(func):
    return [n for n in walk_local(func) if isinstance(n, ast.For)]


def loops_over(func, source_pattern):
    """For statements / comprehension generators in func whose (stripped)
    source matches the pattern -> [(loopnode, direction, env)]."""
    out = []
    for n in walk_local(func):
        it = None
        if isinstance(n, ast.For):
            it = n.iter
        elif isinstance(n, ast.comprehension):
            it = n.iter
        if it is None:
            continue
        src, d = iter_polarity(it, func)
        env = match(source_pattern, src)
        if env is not None:
            out.append((n, d, env))
    return out


# ---------------------------------------------------------------------------
# reaching definitions (per variable, on demand)

def _targets(t, out):
    if isinstance(t, ast.Name):
        out.add(t.id)
    elif isinstance(t, (ast.Tuple, ast.List)):
        for e in t.elts:
            _targets(e, out)
    elif isinstance(t, ast.Starred):
        _targets(t.value, out)


def assigned_at(n):
    """Local names (re)bound at CFG node n."""
    out = set()
    a = n.ast
    if a is None:
        return out
    if n.kind == 'iter':
        _targets(a.target, out)
        return out
    if isinstance(a, ast.Assign):
        for t in a.targets:
            _targets(t, out)
    elif isinstance(a, (ast.AugAssign, ast.AnnAssign)):
        _targets(a.target, out)
    elif isinstance(a, ast.Delete):
        for t in a.targets:
            _targets(t, out)
    elif isinstance(a, (ast.With, ast.AsyncWith)):
        for it in a.items:
            if it.optional_vars is not None:
                _targets(it.optional_vars, out)
    elif isinstance(a, ast.ExceptHandler):
        if a.name:
            out.add(a.name)
    elif isinstance(a, (ast.Import, ast.ImportFrom)):
        for al in a.names:
            out.add((al.asname or al.name).split('.')[0])
    elif isinstance(a, FUNC + (ast.ClassDef,)):
        out.add(a.name)
    h = header_expr(n)
    if h is not None:
        for x in ast.walk(h):
            if isinstance(x, ast.NamedExpr):
                out.add(x.target.id)
    return out


def reaching_defs(cfg, node, var):
    """CFG nodes whose binding of ``var`` may reach ``node`` (the entry node
    stands for 'parameter / unbound')."""
    seen = set()
    out = []
    todo = [p for p, _ in node.pred]
    while todo:
        n = todo.pop()
        if n.id in seen:
            continue
        seen.add(n.id)
        if n is cfg.entry:
            out.append(n)
            continue
        if var in assigned_at(n):
            out.append(n)
            continue
        todo.extend(p for p, _ in n.pred)
    return out


def def_value(n):
    """Value expression bound by a simple ``x = value`` CFG node, else None."""
    a = n.ast
    if isinstance(a, ast.Assign) and len(a.targets) == 1 and \
            isinstance(a.targets[0], ast.Name):
        return a.value
    return None
