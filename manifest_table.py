"""Per-property manifest texts (consumed by tools/gen_manifest.py)."""
NOTE = ('Static analysis only: the sources are parsed, never imported or run. Trusted base: Python ast, the zverif CFG/dominance/'
        'reaching-definition/polarity engines, the rule tables in zverif/rules (each confirmed by reading the code), clang 14 AST for C. ')
TABLE = {
 'C04': {'technique': 'loop-polarity + combinator analysis, CFG path tables, key-construction pattern rules (Python ast)',
         'text': 'Decides the loop shapes that fix the winner for every hierarchy: forward first-non-None walk over specs[i].__sro__ at every position with exact-key probes, forward walk over the extendor list, extendor list order kept by add_extendor, forward first-hit walk over registry.ro, None->Interface in all five key constructors, default returned iff result is None. Each is a necessary condition of "most specific applicable registration wins".',
         'note': NOTE + 'Relative to C02/C03 (resolution orders) and C01 (providedBy). Assumes __sro__/__iro__ are what C02/C03 say.'},
 'C05': {'technique': 'invalidation-graph reachability: content-write detection (derived containers), must-pass-through on CFGs, MRO/call resolution, reaching definitions of cache fills',
         'text': 'Builds the invalidation graph and checks every edge: storage writes of every registry mutator are followed by changed() on all normal paths (INV-1); changed bumps generation, reaches lookup.changed through the MRO of both lookup classes, clears every cache field (INV-2); registry __bases__ stores recompute ro and notify (INV-3); every _uncached_* subscribes to all required specs on hit and miss, caches are filled only with the value of the matching _uncached call (INV-4); verifying entry points run _verify first (INV-5); instance declarations replace __provides__ (INV-6).',
         'note': NOTE + 'Assumes Specification.changed notifies every dependent (C02) and class declarations end in a __bases__ store (C01). Exceptional exits are outside the must-pass rules.'},
 'C06': {'technique': 'derived-state freshness rule over notification handlers (call graph + must-pass), loop polarity of registry walks, link-table pairing',
         'text': 'Checks that the derived resolution order `ro` is recomputed wherever a change of the transitive bases reaches a registry (own store / push handler / pull handler), that all three uncached walks read registries from registry.ro only with the documented direction, that AdapterRegistry link/unlink/notify sub-registries and never discard the link table on a live registry, that Components maps adapters->adapters and utilities->utilities, and the verify snapshot shape.',
         'note': NOTE + 'Two genuine defects of the pinned tree are listed as known findings (stale ro after re-basing an ancestor, push and pull flavour).'},
 'C07': {'technique': 'loop polarity/combinator analysis, path tables of leaf helpers, content-write scope + must-pass-through',
         'text': 'Decides the shapes behind order and multiplicity: reverse exhaustive walks (required __sro__, extendors, registry.ro) with extend of the exact-name leaf; append-at-end / remove-all-equal leaf helpers; unsubscribe writes only the exact leaf, emptied ancestors and the count, with no write before the nothing-removed return; handler (provided None) path; extendor count transitions; invalidation after subscribe/unsubscribe.',
         'note': NOTE + 'Declined: equality of the returned multiset with the net effect of an arbitrary history.'},
}
PENDING = {}
