#!/bin/sh
# all 20 checks on /repo in parallel (no evidence written); prints one line per check that is not clean
for i in 01 02 03 04 05 06 07 08 09 10 11 12 13 14 15 16 17 18 19 20; do ( ZVERIF_NO_EVIDENCE=1 /verif/check C$i > /tmp/clean_C$i.log 2>&1; rc=$?; [ $rc -ne 0 ] && echo "C$i rc=$rc $(grep '^  rule\|ANALYSIS' /tmp/clean_C$i.log | head -3 | cut -c1-200)" ) & done; wait; echo cleanall-done
