#!/usr/bin/env python3
"""Confirm refactor twins independently (patch applies to /repo HEAD, builds,
the suite still gives the baseline) and store them as
/verif/selftest/twins/<name>.diff + <name>.json.
usage: confirm_twin.py <candidate-dir>..."""
import json, os, shutil, subprocess, sys
from concurrent.futures import ThreadPoolExecutor
VERIF = os.path.dirname(os.path.dirname(os.path.abspath(__file__)))
WTPY = '/tmp/wtsite/wtpy'
def sh(cmd, cwd=None, env=None):
    e = dict(os.environ); e.update(env or {})
    r = subprocess.run(cmd, cwd=cwd, env=e, shell=isinstance(cmd, str), capture_output=True, text=True, timeout=900)
    return r.returncode, r.stdout + r.stderr
def confirm(cand):
    name = os.path.basename(cand.rstrip('/'))
    wt = '/tmp/confirm_tw_' + name
    try:
        sh(['git', '-C', '/repo', 'worktree', 'remove', '--force', wt])
        rc, out = sh(['git', '-C', '/repo', 'worktree', 'add', '-q', '--detach', wt, 'HEAD'])
        if rc: return name, False, 'worktree ' + out[-100:]
        rc, out = sh(['git', 'apply', os.path.join(cand, 'patch.diff')], cwd=wt)
        if rc: return name, False, 'no-apply ' + out[-200:]
        rc, out = sh('/venv/bin/python setup.py -q build_ext --inplace', cwd=wt)
        if rc: return name, False, 'build failed ' + out[-200:]
        rc, out = sh('%s -m pytest -q -p no:cacheprovider 2>&1 | tail -1' % WTPY, cwd=wt, env={'ZI_WT': wt})
        summ = out.strip().split(' in ')[0]
        rc, out = sh('%s -m pytest -q -p no:cacheprovider 2>&1 | tail -1' % WTPY, cwd=wt, env={'ZI_WT': wt, 'PURE_PYTHON': '1'})
        summ2 = out.strip().split(' in ')[0]
        return name, summ == '12 failed, 1350 passed, 7 skipped', 'C: %s | PURE_PYTHON: %s' % (summ, summ2)
    finally:
        sh(['git', '-C', '/repo', 'worktree', 'remove', '--force', wt]); shutil.rmtree(wt, ignore_errors=True)
cands = [c for c in sys.argv[1:] if os.path.isdir(c)]
os.makedirs(os.path.join(VERIF, 'selftest', 'twins'), exist_ok=True)
with ThreadPoolExecutor(6) as ex:
    for cand, (name, ok, msg) in zip(cands, ex.map(confirm, cands)):
        print('%-14s %s %s' % (name, 'CONFIRMED' if ok else 'REJECTED', msg)); sys.stdout.flush()
        if not ok: continue
        shutil.copy(os.path.join(cand, 'patch.diff'), os.path.join(VERIF, 'selftest', 'twins', name + '.diff'))
        meta = {}
        try: meta = json.load(open(os.path.join(cand, 'meta.json')))
        except Exception: pass
        meta['confirmed'] = {'suite_with_patch': msg, 'repo_head': subprocess.run(['git', '-C', '/repo', 'rev-parse', '--short', 'HEAD'], capture_output=True, text=True).stdout.strip()}
        json.dump(meta, open(os.path.join(VERIF, 'selftest', 'twins', name + '.json'), 'w'), indent=1)
