#!/usr/bin/env python3
"""Run every check against behaviour-preserving refactorings (twins): apply
each patch to a scratch copy of /repo/src and run all checks with --root.
Any exit status other than 0 is a false alarm (1) or an analysis error (2).
usage: twincheck.py <dir-with-patch.diff | file.diff>..."""
import os, shutil, subprocess, sys, tempfile
from concurrent.futures import ThreadPoolExecutor
VERIF = os.path.dirname(os.path.dirname(os.path.abspath(__file__)))
av = subprocess.run([os.path.join(VERIF, 'check'), '--list'], capture_output=True, text=True).stdout.split()
def run(patch):
    tmp = tempfile.mkdtemp(prefix='zvtwin_')
    try:
        os.makedirs(os.path.join(tmp, 'src/zope'))
        shutil.copytree('/repo/src/zope/interface', os.path.join(tmp, 'src/zope/interface'), ignore=shutil.ignore_patterns('*.so', '__pycache__', 'tests'))
        r = subprocess.run(['patch', '-p1', '-s', '-f', '-i', os.path.abspath(patch)], cwd=tmp, capture_output=True, text=True)
        if r.returncode:
            return patch, None
        res = {}
        for p in av:
            rr = subprocess.run([os.path.join(VERIF, 'check'), p, '--root', tmp], capture_output=True, text=True, env=dict(os.environ, ZVERIF_NO_EVIDENCE='1'))
            if rr.returncode:
                lines = [l.strip()[:300] for l in rr.stdout.splitlines() if l.startswith(('  rule', 'ANALYSIS-ERROR'))]
                res[p] = (rr.returncode, lines)
        return patch, res
    finally:
        shutil.rmtree(tmp, ignore_errors=True)
patches = [os.path.join(a, 'patch.diff') if os.path.isdir(a) else a for a in sys.argv[1:]]
bad = 0
with ThreadPoolExecutor(8) as ex:
    for patch, res in ex.map(run, patches):
        name = os.path.basename(os.path.dirname(patch)) if patch.endswith('patch.diff') else os.path.basename(patch)
        if res is None:
            print('%-14s PATCH-FAILED' % name); continue
        if not res:
            print('%-14s silent' % name); continue
        bad += 1
        print('%-14s ALARM %s' % (name, {p: rc for p, (rc, _) in res.items()}))
        for p, (rc, lines) in res.items():
            for l in lines[:4]:
                print('      [%s] %s' % (p, l))
print('%d of %d twins raised an alarm' % (bad, len(patches)))
