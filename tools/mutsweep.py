#!/usr/bin/env python3
"""Systematic mutation sweep used to look for blind spots of the rules
(development tool, not a registered check; nothing here decides a property).

  gen      - generate single-point AST mutants of the package's Python modules
             into /tmp/msweep/mut/<n>.json  ({file, func, op, line, src})
  suite    - run the repository's test suite against every mutant (scratch
             copies of /repo under /tmp/msweep/w<k>, default mode then
             PURE_PYTHON=1); survivors -> /tmp/msweep/survivors.json
  checks   - run all static checks (--root on a scratch copy of src) against
             every survivor; result -> /tmp/msweep/result.json
  report   - per function: survivors flagged / unflagged

The scratch copies live outside /repo and /verif and are removed by `clean`.
"""
import ast
import copy
import json
import os
import re
import shutil
import subprocess
import sys
from concurrent.futures import ThreadPoolExecutor

VERIF = os.path.dirname(os.path.dirname(os.path.abspath(__file__)))
BASE = '/tmp/msweep'
PKG = 'src/zope/interface'
FILES = ['interface.py', 'declarations.py', 'adapter.py', 'registry.py',
         'ro.py', 'verify.py', 'common/__init__.py']
CMP = {ast.Is: [ast.IsNot, ast.Eq], ast.IsNot: [ast.Is, ast.NotEq],
       ast.Eq: [ast.NotEq, ast.Is], ast.NotEq: [ast.Eq, ast.IsNot],
       ast.Lt: [ast.LtE, ast.Gt], ast.LtE: [ast.Lt], ast.Gt: [ast.GtE, ast.Lt],
       ast.GtE: [ast.Gt], ast.In: [ast.NotIn], ast.NotIn: [ast.In]}
ATTR = {'__iro__': ['__sro__', '__bases__'], '__sro__': ['__iro__', '__bases__'],
        'extends': ['isOrExtends'], 'isOrExtends': ['extends'],
        '_cache': ['_mcache'], '_mcache': ['_cache', '_scache'], '_scache': ['_mcache'],
        '_adapters': ['_subscribers'], '_subscribers': ['_adapters'],
        'providedBy': ['implementedBy'], 'implementedBy': ['providedBy'],
        'append': ['extend'], 'ro': ['__bases__'], 'declared': ['__bases__'],
        'update': ['setdefault'], 'get': ['pop'], 'lookup': ['lookup1'],
        'subscribe': ['unsubscribe'], 'unsubscribe': ['subscribe']}


def functions(tree):
    """yield (qualname, node) for every def, nested ones included"""
    def walk(node, prefix):
        for ch in ast.iter_child_nodes(node):
            if isinstance(ch, (ast.FunctionDef, ast.AsyncFunctionDef)):
                q = prefix + ch.name
                yield q, ch
                yield from walk(ch, q + '.')
            elif isinstance(ch, ast.ClassDef):
                yield from walk(ch, prefix + ch.name + '.')
            else:
                yield from walk(ch, prefix)
    yield from walk(tree, '')


def own_nodes(fn):
    """nodes of fn that are not inside a nested def/class"""
    out = []

    def walk(n):
        for ch in ast.iter_child_nodes(n):
            if isinstance(ch, (ast.FunctionDef, ast.AsyncFunctionDef, ast.ClassDef)):
                continue
            out.append((n, ch))
            walk(ch)
    walk(fn)
    return out


def is_doc(stmt):
    return isinstance(stmt, ast.Expr) and isinstance(stmt.value, ast.Constant) and isinstance(stmt.value.value, str)


def mutations(fn):
    """yield (op, line, apply) where apply(fn_copy_nodes_by_index) mutates in place;
    nodes are addressed by their index in ast.walk order so that a deep copy can be edited"""
    nodes = list(ast.walk(fn))
    idx = {id(n): i for i, n in enumerate(nodes)}
    own = {id(ch) for _, ch in own_nodes(fn)}
    for n in nodes:
        if id(n) not in own:
            continue
        i = idx[id(n)]
        ln = getattr(n, 'lineno', fn.lineno)
        # statement-level
        for field in ('body', 'orelse', 'finalbody'):
            seq = getattr(n, field, None)
            if not isinstance(seq, list):
                continue
        if isinstance(n, (ast.Expr, ast.Assign, ast.AugAssign, ast.Delete, ast.AnnAssign)) and not is_doc(n):
            yield ('del-stmt', ln, i, ('replace_stmt', ast.Pass()))
        elif isinstance(n, (ast.Break, ast.Continue)):
            yield ('del-' + type(n).__name__.lower(), ln, i, ('replace_stmt', ast.Pass()))
        elif isinstance(n, ast.Return) and n.value is not None and not (isinstance(n.value, ast.Constant) and n.value.value is None):
            yield ('return-none', ln, i, ('set', 'value', ast.Constant(None)))
        if isinstance(n, (ast.If, ast.While)):
            yield ('negate-test', ln, i, ('negate',))
            if isinstance(n, ast.If):
                yield ('if-false', ln, i, ('set', 'test', ast.Constant(False)))
                yield ('if-true', ln, i, ('set', 'test', ast.Constant(True)))
        if isinstance(n, ast.IfExp):
            yield ('ifexp-negate', ln, i, ('negate',))
        if isinstance(n, ast.Compare):
            for k, op in enumerate(n.ops):
                for alt in CMP.get(type(op), []):
                    yield ('cmp-%s-%s' % (type(op).__name__, alt.__name__), ln, i, ('cmpop', k, alt))
        if isinstance(n, ast.BoolOp):
            alt = ast.Or if isinstance(n.op, ast.And) else ast.And
            yield ('boolop-' + alt.__name__, ln, i, ('set', 'op', alt()))
            for k in range(len(n.values)):
                yield ('boolop-drop%d' % k, ln, i, ('dropvalue', k))
        if isinstance(n, ast.UnaryOp) and isinstance(n.op, ast.Not):
            yield ('drop-not', ln, i, ('unwrap', 'operand'))
        if isinstance(n, ast.Call) and isinstance(n.func, ast.Name) and n.func.id in ('reversed', 'tuple', 'list', 'sorted') and len(n.args) == 1 and not n.keywords:
            yield ('drop-' + n.func.id, ln, i, ('unwrapcall',))
        if isinstance(n, ast.Subscript) and isinstance(n.slice, ast.Slice):
            s = n.slice
            if s.step is not None:
                yield ('drop-step', ln, i, ('slice', 'step', None))
            for part in ('lower', 'upper'):
                v = getattr(s, part)
                if isinstance(v, ast.Constant) and isinstance(v.value, int):
                    yield ('slice-%s+1' % part, ln, i, ('slice', part, ast.Constant(v.value + 1)))
                    if v.value:
                        yield ('slice-%s-1' % part, ln, i, ('slice', part, ast.Constant(v.value - 1)))
        if isinstance(n, ast.Attribute) and n.attr in ATTR:
            for alt in ATTR[n.attr]:
                yield ('attr-%s-%s' % (n.attr, alt), ln, i, ('set', 'attr', alt))
        if isinstance(n, ast.Constant) and isinstance(n.value, int) and not isinstance(n.value, bool) and n.value in (0, 1, -1):
            yield ('const-%d' % n.value, ln, i, ('set', 'value', 1 - n.value if n.value in (0, 1) else 0))
        if isinstance(n, ast.Constant) and isinstance(n.value, bool):
            yield ('const-%s' % n.value, ln, i, ('set', 'value', not n.value))
        if isinstance(n, ast.Call) and len(n.args) >= 2 and not any(isinstance(a, ast.Starred) for a in n.args[:2]):
            yield ('swap-args', ln, i, ('swapargs',))
        if isinstance(n, ast.BinOp) and isinstance(n.op, (ast.Add, ast.Sub)):
            alt = ast.Sub if isinstance(n.op, ast.Add) else ast.Add
            yield ('binop-' + alt.__name__, ln, i, ('set', 'op', alt()))
            yield ('binop-swap', ln, i, ('swapbin',))
        if isinstance(n, ast.For):
            yield ('for-once', ln, i, ('appendbreak',))


class Replacer(ast.NodeTransformer):
    def __init__(self, target, new):
        self.target, self.new = target, new

    def generic_visit(self, node):
        for field, old in ast.iter_fields(node):
            if isinstance(old, list):
                for k, v in enumerate(old):
                    if v is self.target:
                        old[k] = self.new
                        return node
                    if isinstance(v, ast.AST):
                        self.generic_visit(v)
            elif isinstance(old, ast.AST):
                if old is self.target:
                    setattr(node, field, self.new)
                    return node
                self.generic_visit(old)
        return node


def apply(fncopy, i, act):
    nodes = list(ast.walk(fncopy))
    n = nodes[i]
    kind = act[0]
    if kind == 'replace_stmt':
        Replacer(n, act[1]).generic_visit(fncopy)
    elif kind == 'set':
        setattr(n, act[1], act[2])
    elif kind == 'negate':
        n.test = ast.UnaryOp(ast.Not(), n.test)
    elif kind == 'cmpop':
        n.ops[act[1]] = act[2]()
    elif kind == 'dropvalue':
        vals = [v for k, v in enumerate(n.values) if k != act[1]]
        Replacer(n, vals[0] if len(vals) == 1 else ast.BoolOp(n.op, vals)).generic_visit(fncopy)
    elif kind == 'unwrap':
        Replacer(n, getattr(n, act[1])).generic_visit(fncopy)
    elif kind == 'unwrapcall':
        Replacer(n, n.args[0]).generic_visit(fncopy)
    elif kind == 'slice':
        setattr(n.slice, act[1], act[2])
    elif kind == 'swapargs':
        n.args[0], n.args[1] = n.args[1], n.args[0]
    elif kind == 'swapbin':
        n.left, n.right = n.right, n.left
    elif kind == 'appendbreak':
        n.body.append(ast.Break())


def gen():
    out = os.path.join(BASE, 'mut')
    shutil.rmtree(out, ignore_errors=True)
    os.makedirs(out)
    count = 0
    for f in FILES:
        path = os.path.join('/repo', PKG, f)
        src = open(path).read()
        tree = ast.parse(src)
        base_text = ast.unparse(tree)
        seen = {base_text}
        fns = list(functions(tree))
        for q, fn in fns:
            for op, ln, i, act in mutations(fn):
                t2 = copy.deepcopy(tree)
                fn2 = dict(functions(t2))[q] if False else None
                # locate the copy of fn by position in walk order of the module
                for (q2, c) in functions(t2):
                    if q2 == q and c.lineno == fn.lineno:
                        fn2 = c
                        break
                try:
                    apply(fn2, i, act)
                    ast.fix_missing_locations(t2)
                    text = ast.unparse(t2)
                    compile(text, f, 'exec')
                except Exception:
                    continue
                if text in seen:
                    continue
                seen.add(text)
                count += 1
                json.dump({'id': count, 'file': f, 'func': q, 'op': op, 'line': ln, 'src': text},
                          open(os.path.join(out, '%05d.json' % count), 'w'))
    print('generated', count)


def sh(cmd, cwd=None, env=None, timeout=900):
    e = dict(os.environ)
    e.update(env or {})
    try:
        r = subprocess.run(cmd, cwd=cwd, env=e, shell=isinstance(cmd, str), capture_output=True, text=True, timeout=timeout)
        return r.returncode, r.stdout + r.stderr
    except subprocess.TimeoutExpired:
        return 124, 'timeout'


def mkworker(k):
    w = os.path.join(BASE, 'w%d' % k)
    if os.path.exists(os.path.join(w, 'ok')):
        return w
    shutil.rmtree(w, ignore_errors=True)
    os.makedirs(w)
    sh('git -C /repo archive HEAD | tar -x -C %s' % w)
    sh('/venv/bin/python setup.py -q build_ext --inplace', cwd=w)
    open(os.path.join(w, 'ok'), 'w').write('1')
    return w


def deselects():
    p = os.path.join(BASE, 'deselect.json')
    if os.path.exists(p):
        return json.load(open(p))
    w = mkworker(0)
    rc, out = sh('/tmp/wtsite/wtpy -m pytest -q -p no:cacheprovider -rf 2>&1 | grep ^FAILED', cwd=w, env={'ZI_WT': w})
    ds = [l.split()[1] for l in out.splitlines() if l.startswith('FAILED')]
    json.dump(ds, open(p, 'w'))
    return ds


def suite_one(args):
    k, mpath, ds = args
    m = json.load(open(mpath))
    w = mkworker(k)
    target = os.path.join(w, PKG, m['file'])
    orig = open(os.path.join('/repo', PKG, m['file'])).read()
    try:
        open(target, 'w').write(m['src'])
        dsel = ' '.join('--deselect %s' % d for d in ds)
        cmd = '/tmp/wtsite/wtpy -m pytest -x -q -p no:cacheprovider %s 2>&1 | tail -1' % dsel
        rc, out = sh(cmd, cwd=w, env={'ZI_WT': w}, timeout=300)
        if 'failed' in out or 'error' in out.lower() or 'passed' not in out:
            return m['id'], 'killed', out.strip()[-80:]
        rc, out2 = sh(cmd, cwd=w, env={'ZI_WT': w, 'PURE_PYTHON': '1'}, timeout=300)
        if 'failed' in out2 or 'error' in out2.lower() or 'passed' not in out2:
            return m['id'], 'killed-pure', out2.strip()[-80:]
        return m['id'], 'survived', out.strip()[-60:]
    finally:
        open(target, 'w').write(orig)


def suite(nworkers=12):
    ds = deselects()
    print('deselect', len(ds))
    muts = sorted(os.listdir(os.path.join(BASE, 'mut')))
    resp = os.path.join(BASE, 'suite.json')
    res = json.load(open(resp)) if os.path.exists(resp) else {}
    todo = [m for m in muts if m[:5].lstrip('0') not in res]
    # static partition: worker k handles every k-th mutant, sequentially
    def work(k):
        w = mkworker(k)
        out = []
        for j, m in enumerate(todo):
            if j % nworkers != k:
                continue
            out.append(suite_one((k, os.path.join(BASE, 'mut', m), ds)))
            if len(out) % 20 == 0:
                print('worker', k, len(out), flush=True)
        return out
    with ThreadPoolExecutor(nworkers) as ex:
        for chunk in ex.map(work, range(nworkers)):
            for i, st, tail in chunk:
                res[str(i)] = [st, tail]
    json.dump(res, open(resp, 'w'))
    sv = [i for i, (st, _) in res.items() if st == 'survived']
    print('survived', len(sv), 'of', len(res))


def check_one(mid):
    m = json.load(open(os.path.join(BASE, 'mut', '%05d.json' % int(mid))))
    import tempfile
    tmp = tempfile.mkdtemp(prefix='zvsweep_')
    try:
        os.makedirs(os.path.join(tmp, 'src/zope'))
        shutil.copytree('/repo/src/zope/interface', os.path.join(tmp, 'src/zope/interface'),
                        ignore=shutil.ignore_patterns('*.so', '__pycache__', 'tests'))
        open(os.path.join(tmp, PKG, m['file']), 'w').write(m['src'])
        r = subprocess.run([os.path.join(VERIF, 'check'), '--all', '--root', tmp], capture_output=True, text=True,
                           env=dict(os.environ, ZVERIF_NO_EVIDENCE='1'))
        viol = sorted({l.split('property=')[1].split()[0] for l in r.stdout.splitlines() if l.startswith('VIOLATION')})
        errs = sorted({l.split('property=')[1].split()[0] for l in r.stdout.splitlines() if l.startswith('ANALYSIS-ERROR')})
        return mid, viol, errs
    finally:
        shutil.rmtree(tmp, ignore_errors=True)


def checks(nworkers=14):
    res = json.load(open(os.path.join(BASE, 'suite.json')))
    sv = sorted((i for i, (st, _) in res.items() if st == 'survived'), key=int)
    outp = os.path.join(BASE, 'result.json')
    out = json.load(open(outp)) if os.path.exists(outp) else {}
    todo = [i for i in sv if i not in out]
    skip = ('_ROComparison', '_ClassBoolFromEnv', '_TrackingC3', '_logger', '_warn_iro',
            'InconsistentResolutionOrderError', '__create_class_doc', '__optional_methods_to_docs',
            '__repr__', '__str__', '_str_', 'getDoc', 'asStructuredText')
    keep = []
    for i in todo:
        m = json.load(open(os.path.join(BASE, 'mut', '%05d.json' % int(i))))
        if m['file'].startswith('common/') or any(k in m['func'] for k in skip):
            continue
        keep.append(i)
    print('survivors', len(sv), 'checked now', len(keep), flush=True)
    todo = keep
    with ThreadPoolExecutor(nworkers) as ex:
        for n, (mid, viol, errs) in enumerate(ex.map(check_one, todo)):
            out[mid] = {'viol': viol, 'errs': errs}
            if n % 10 == 0:
                json.dump(out, open(outp, 'w'))
                print(n, len(todo), flush=True)
    json.dump(out, open(outp, 'w'))


def report():
    out = json.load(open(os.path.join(BASE, 'result.json')))
    per = {}
    for mid, r in sorted(out.items(), key=lambda kv: int(kv[0])):
        m = json.load(open(os.path.join(BASE, 'mut', '%05d.json' % int(mid))))
        key = m['file'] + ':' + m['func']
        per.setdefault(key, []).append((mid, m['op'], m['line'], r['viol'], r['errs']))
    for key in sorted(per):
        rows = per[key]
        fl = sum(1 for r in rows if r[3] or r[4])
        print('%-60s survivors=%d flagged=%d' % (key, len(rows), fl))
        for mid, op, ln, viol, errs in rows:
            if not viol and not errs:
                print('      UNFLAGGED #%s %s line %s' % (mid, op, ln))
            elif '-v' in sys.argv:
                print('      flagged   #%s %s line %s %s %s' % (mid, op, ln, ','.join(viol), ('ERR:' + ','.join(errs)) if errs else ''))


C_FILE = '_zope_interface_coptimizations.c'


def c_functions(src):
    """[(name, start_line_idx, end_line_idx)] for top-level function bodies (brace matching on column 0)"""
    lines = src.split('\n')
    out = []
    i = 0
    while i < len(lines):
        if lines[i].startswith('{') and i > 0:
            # name is on one of the previous lines: ident(
            name = None
            for j in range(i - 1, max(i - 6, -1), -1):
                m = re.match(r'^([A-Za-z_][A-Za-z0-9_]*)\s*\(', lines[j])
                if m:
                    name = m.group(1)
                    break
            k = i
            while k < len(lines) and not lines[k].startswith('}'):
                k += 1
            if name:
                out.append((name, i, k))
            i = k
        i += 1
    return out


def cgen():
    out = os.path.join(BASE, 'cmut')
    shutil.rmtree(out, ignore_errors=True)
    os.makedirs(out)
    src = open(os.path.join('/repo', PKG, C_FILE)).read()
    lines = src.split('\n')
    count = 0
    seen = set()

    def emit(func, op, ln, newlines):
        nonlocal count
        text = '\n'.join(newlines)
        if text in seen or text == src:
            return
        seen.add(text)
        count += 1
        json.dump({'id': count, 'file': C_FILE, 'func': func, 'op': op, 'line': ln + 1, 'src': text},
                  open(os.path.join(out, '%05d.json' % count), 'w'))

    single = re.compile(r'^\s*(Py_INCREF|Py_DECREF|Py_XDECREF|Py_XINCREF|Py_CLEAR|Py_VISIT|PyErr_Clear|PyObject_GC_UnTrack|PyObject_ClearWeakRefs|[A-Za-z_][A-Za-z0-9_]*)\s*\(.*\);\s*$')
    subs = [(r'== NULL', '!= NULL'), (r'!= NULL', '== NULL'), (r'== Py_None', '!= Py_None'), (r'!= Py_None', '== Py_None'),
            (r'< 0', '<= 0'), (r'< 0', '> 0'), (r'Py_EQ', 'Py_NE'), (r'Py_NE', 'Py_EQ'), (r'Py_LT', 'Py_LE'), (r'Py_GT', 'Py_GE'),
            (r'Py_LT', 'Py_GT'), (r'&&', '||'), (r'\|\|', '&&'), (r' <= ', ' < '), (r' >= ', ' > '), (r' < ', ' <= '), (r' > ', ' >= '),
            (r' == ', ' != '), (r' != ', ' == '), (r'\+ 1', '+ 0'), (r'- 1', '- 0'), (r'_cache', '_mcache'), (r'_mcache', '_scache'),
            (r'_scache', '_mcache'), (r'Py_RETURN_TRUE', 'Py_RETURN_FALSE'), (r'Py_RETURN_FALSE', 'Py_RETURN_TRUE'),
            (r'\bi = 0\b', 'i = 1'), (r'\(i = 0', '(i = 1'), (r'i < l', 'i <= l'), (r'i < l', 'i < l - 1'),
            (r'\bbreak;', ';'), (r'\bcontinue;', ';'), (r'return 0;', 'return 1;'), (r'return -1;', 'return 0;')]
    for name, a, b in c_functions(src):
        for ln in range(a + 1, b):
            line = lines[ln]
            st = line.strip()
            if not st or st.startswith(('/*', '*', '//', '#')):
                continue
            if single.match(line) and not st.startswith(('return', 'if', 'for', 'while', 'else', 'goto')):
                emit(name, 'del-stmt', ln, lines[:ln] + [re.sub(r'\S.*', ';', line, count=1)] + lines[ln + 1:])
            m = re.match(r'^(\s*)(?:\}\s*else\s+)?if \((.*)\)\s*(\{?)\s*$', line)
            if m and line.count('(') == line.count(')'):
                pre = line[:line.index('if (')]
                emit(name, 'negate-if', ln, lines[:ln] + ['%sif (!(%s)) %s' % (pre, m.group(2), m.group(3))] + lines[ln + 1:])
            for pat, rep in subs:
                for mm in re.finditer(pat, line):
                    new = line[:mm.start()] + rep + line[mm.end():]
                    emit(name, 'sub:%s->%s' % (pat, rep), ln, lines[:ln] + [new] + lines[ln + 1:])
    print('generated', count)


def csuite_one(k, mpath, ds):
    m = json.load(open(mpath))
    w = mkworker(100 + k)
    target = os.path.join(w, PKG, C_FILE)
    open(target, 'w').write(m['src'])
    rc, out = sh('/venv/bin/python setup.py -q build_ext --inplace 2>&1 | tail -5', cwd=w, timeout=300)
    rc2, out2 = sh('ls %s/*.so' % os.path.join(w, PKG))
    if 'error' in out.lower():
        return m['id'], 'nocompile', out.strip()[-80:]
    dsel = ' '.join('--deselect %s' % d for d in ds)
    cmd = '/tmp/wtsite/wtpy -m pytest -x -q -p no:cacheprovider %s 2>&1 | tail -1' % dsel
    rc, out = sh(cmd, cwd=w, env={'ZI_WT': w}, timeout=300)
    if 'failed' in out or 'error' in out.lower() or 'passed' not in out:
        return m['id'], 'killed', out.strip()[-80:]
    return m['id'], 'survived', out.strip()[-60:]


def csuite(nworkers=10):
    ds = deselects()
    muts = sorted(os.listdir(os.path.join(BASE, 'cmut')))
    resp = os.path.join(BASE, 'csuite.json')
    res = json.load(open(resp)) if os.path.exists(resp) else {}
    todo = [m for m in muts if m[:5].lstrip('0') not in res]

    def work(k):
        out = []
        for j, m in enumerate(todo):
            if j % nworkers != k:
                continue
            try:
                out.append(csuite_one(k, os.path.join(BASE, 'cmut', m), ds))
            except Exception as e:
                out.append((int(m[:5]), 'error', repr(e)[:80]))
            if len(out) % 10 == 0:
                print('worker', k, len(out), flush=True)
        return out
    with ThreadPoolExecutor(nworkers) as ex:
        for chunk in ex.map(work, range(nworkers)):
            for i, st, tail in chunk:
                res[str(i)] = [st, tail]
    json.dump(res, open(resp, 'w'))
    print('survived', sum(1 for st, _ in res.values() if st == 'survived'), 'of', len(res))


if __name__ == '__main__':
    cmd = sys.argv[1]
    if cmd == 'gen':
        gen()
    elif cmd == 'suite':
        suite(int(sys.argv[2]) if len(sys.argv) > 2 else 12)
    elif cmd == 'checks':
        checks(int(sys.argv[2]) if len(sys.argv) > 2 else 14)
    elif cmd == 'report':
        report()
    elif cmd == 'cgen':
        cgen()
    elif cmd == 'csuite':
        csuite(int(sys.argv[2]) if len(sys.argv) > 2 else 10)
    elif cmd == 'clean':
        shutil.rmtree(BASE, ignore_errors=True)
