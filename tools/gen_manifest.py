#!/usr/bin/env python3
"""Regenerate MANIFEST.json from the per-property table below.  Properties
with READY[id] = True are claimed; the others are listed under not_applicable
with the reason given."""
import json, os, sys
VERIF = os.path.dirname(os.path.dirname(os.path.abspath(__file__)))
sys.path.insert(0, VERIF)
from manifest_table import TABLE, PENDING  # noqa

props = [json.loads(l) for l in open(os.path.join(VERIF, 'properties.jsonl'))]
checks, na = [], []
for p in props:
    pid = p['id']
    t = TABLE.get(pid)
    if t is None:
        na.append({'property_id': pid, 'reason': PENDING.get(pid, 'check not built yet (see DESIGN.md section 3 for the planned static rules)')})
        continue
    checks.append({
        'property_id': pid,
        'quick_cmd': './check %s --tier quick' % pid,
        'thorough_cmd': './check %s --tier thorough' % pid,
        'evidence_file': '/verif/evidence/%s.json' % pid,
        'replay_cmd_template': './check --replay {path}',
        'engine': 'zverif',
        'level_claimed': {'category': 'other', 'text': t['text'], 'design_ref': 'DESIGN.md section 3, %s' % pid},
        'level_note': t['note'],
        'technique': t['technique'],
    })
m = {
 'version': 1,
 'setup_cmd': './check --list',
 'hooks': {'guard': 'ZOPE_INTERFACE_VERIF', 'enable': 'none - static analysis reads the sources; no hooks are compiled into /repo',
           'baseline_off_cmd': 'cd /repo && /venv/bin/python -m pytest -ra -q -p no:cacheprovider --timeout=900 --continue-on-collection-errors',
           'source_commits': [], 'add_only': True},
 'engines': [{'name': 'zverif', 'path': '/verif/zverif', 'serves_properties': [c['property_id'] for c in checks],
              'kind_free_text': 'repository-specific static analysis: Python ast + own CFG/dominance/path enumeration/reaching definitions/loop polarity/finite decision tables; clang JSON AST for the C accelerator; nothing from /repo is imported or executed'}],
 'checks': checks,
 'notes': 'Every check decides the structural clauses listed in its level_claimed.text (necessary conditions of the property), never the whole behaviour; declined clauses are in DESIGN.md section 5 and in each evidence file (coverage.declined_clauses). Exit 0 holds / 1 VIOLATION / 2 ANALYSIS-ERROR. Known findings: /verif/known_findings.json.',
 'not_applicable': na,
}
json.dump(m, open(os.path.join(VERIF, 'MANIFEST.json'), 'w'), indent=1)
print('claimed', [c['property_id'] for c in checks]); print('pending', [n['property_id'] for n in na])
