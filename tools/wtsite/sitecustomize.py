import os, sys
wt = os.environ.get('ZI_WT')
if wt:
    m = sys.modules.get('zope')
    src = os.path.join(wt, 'src')
    if m is not None:
        m.__path__[:] = [os.path.join(src, 'zope')] + [
            p for p in m.__path__ if p != '/repo/src/zope']
    sys.path[:] = [p for p in sys.path if p != '/repo/src']
    sys.path.insert(0, src)
