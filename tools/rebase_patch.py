#!/usr/bin/env python3
"""Rebase a stored patch (seeded defect / twin) onto /repo HEAD after a fix:
commit moved its context.  Finds the newest ancestor of HEAD where the patch
applies, commits it in a scratch worktree, cherry-picks onto HEAD and rewrites
the patch file.  Conflicts are printed (left for manual resolution).
usage: rebase_patch.py <patch.diff>..."""
import os, subprocess, sys, shutil
def sh(*a, cwd=None, check=False):
    r = subprocess.run(a, cwd=cwd, capture_output=True, text=True)
    if check and r.returncode:
        raise SystemExit('%s: %s' % (a, r.stderr))
    return r
WT = '/tmp/rb_wt'
sh('git', '-C', '/repo', 'worktree', 'remove', '--force', WT)
shutil.rmtree(WT, ignore_errors=True)
sh('git', '-C', '/repo', 'worktree', 'add', '-q', '--detach', WT, 'HEAD', check=True)
head = sh('git', '-C', '/repo', 'rev-parse', 'HEAD').stdout.strip()
revs = sh('git', '-C', '/repo', 'rev-list', '--max-count=30', 'HEAD').stdout.split()
try:
    for patch in sys.argv[1:]:
        patch = os.path.abspath(patch)
        base = None
        for r in revs:
            sh('git', 'checkout', '-q', '-f', '--detach', r, cwd=WT)
            if sh('git', 'apply', '--check', patch, cwd=WT).returncode == 0:
                base = r
                break
        if base is None:
            print(patch, 'NO BASE FOUND'); continue
        if base == head:
            print(patch, 'applies to HEAD already'); continue
        sh('git', 'apply', patch, cwd=WT, check=True)
        sh('git', 'commit', '-qam', 'x', cwd=WT, check=True)
        c = sh('git', 'rev-parse', 'HEAD', cwd=WT).stdout.strip()
        sh('git', 'checkout', '-q', '--detach', head, cwd=WT)
        r = sh('git', 'cherry-pick', c, cwd=WT)
        if r.returncode:
            print(patch, 'CONFLICT (base %s)' % base[:7])
            print(sh('git', 'diff', cwd=WT).stdout[:3000])
            sh('git', 'cherry-pick', '--abort', cwd=WT)
            continue
        d = sh('git', 'diff', head, 'HEAD', cwd=WT).stdout
        open(patch, 'w').write(d)
        print(patch, 'rebased from', base[:7])
finally:
    sh('git', '-C', '/repo', 'worktree', 'remove', '--force', WT)
    shutil.rmtree(WT, ignore_errors=True)
