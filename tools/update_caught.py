#!/usr/bin/env python3
"""Run every available check against every seeded defect (scratch copies,
--root) and record in each meta.json which checks report it ("caught_by").
Also prints the matrix used in DESIGN.md."""
import json, os, sys, subprocess, tempfile, shutil
from concurrent.futures import ThreadPoolExecutor
VERIF = os.path.dirname(os.path.dirname(os.path.abspath(__file__)))
sys.path.insert(0, os.path.join(VERIF, 'tools'))
av = subprocess.run([os.path.join(VERIF, 'check'), '--list'], capture_output=True, text=True).stdout.split()
def run(name):
    d = os.path.join(VERIF, 'seeded', name)
    tmp = tempfile.mkdtemp(prefix='zvupd_')
    try:
        os.makedirs(os.path.join(tmp, 'src/zope'))
        shutil.copytree('/repo/src/zope/interface', os.path.join(tmp, 'src/zope/interface'), ignore=shutil.ignore_patterns('*.so', '__pycache__', 'tests'))
        r = subprocess.run(['patch', '-p1', '-s', '-f', '-i', os.path.join(d, 'patch.diff')], cwd=tmp, capture_output=True, text=True)
        if r.returncode:
            return name, None, {}
        res = {}
        for p in av:
            rr = subprocess.run([os.path.join(VERIF, 'check'), p, '--root', tmp], capture_output=True, text=True, env=dict(os.environ, ZVERIF_NO_EVIDENCE='1'))
            rules = sorted({l.split()[1] for l in rr.stdout.splitlines() if l.startswith('  rule')})
            res[p] = (rr.returncode, rules)
        return name, True, res
    finally:
        shutil.rmtree(tmp, ignore_errors=True)
names = sorted(n for n in os.listdir(os.path.join(VERIF, 'seeded')) if os.path.isdir(os.path.join(VERIF, 'seeded', n)))
only = sys.argv[1:]
if only: names = [n for n in names if n in only or n.split('_')[0] in only]
with ThreadPoolExecutor(12) as ex:
    for name, ok, res in ex.map(run, names):
        mp = os.path.join(VERIF, 'seeded', name, 'meta.json')
        meta = json.load(open(mp))
        if ok is None:
            print(name, 'PATCH-FAILED'); continue
        caught = sorted(p for p, (rc, _) in res.items() if rc == 1)
        errs = sorted(p for p, (rc, _) in res.items() if rc == 2)
        meta['caught_by'] = caught
        meta['caught_rules'] = {p: res[p][1] for p in caught}
        json.dump(meta, open(mp, 'w'), indent=1)
        own = meta.get('property')
        st = 'OWN' if own in caught else ('other' if caught else 'MISSED')
        print('%-7s %-6s own=%s caught_by=%s %s' % (name, st, own, ','.join('%s(%s)' % (p, '/'.join(res[p][1])) for p in caught), ('ERR:' + ','.join(errs)) if errs else ''))
