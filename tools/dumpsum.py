import sys
sys.path.insert(0,'/verif')
from zverif.core import Repo
from zverif.pyfront import find_def
from zverif.sympath import summaries
root = '/repo'
args = sys.argv[1:]
allp = '--raise' in args
args=[a for a in args if a!='--raise']
if args[0]=='--root': root=args[1]; args=args[2:]
repo = Repo(root)
mod = repo.module(args[0])
if args[1].startswith('ProvidesClass.'):
    from zverif.rules.picklesem import provides_class
    from zverif.pyfront import methods_of
    f = methods_of(provides_class(mod))[args[1].split('.')[1]]
else:
    f = find_def(mod, args[1])
for ps in summaries(f, normal_only=not allp):
    print('---', ps.kind, 'ret=', ps.ret_src(), 'explicit' if ps.ret_node is not None else '')
    for c,t,p in ps.order: print('   fact', p, c, t)
    for i,e in enumerate(ps.events): print('   ev', i, repr(e)[:150])
