#!/usr/bin/env python3
"""Print the markdown table 'which check catches which seeded defect'."""
import json, os
V = os.path.dirname(os.path.dirname(os.path.abspath(__file__)))
rows = []
for n in sorted(os.listdir(os.path.join(V, 'seeded'))):
    mp = os.path.join(V, 'seeded', n, 'meta.json')
    if not os.path.exists(mp): continue
    m = json.load(open(mp))
    rules = m.get('caught_rules', {})
    own = m.get('property')
    caught = m.get('caught_by', [])
    cell = ', '.join('%s (%s)' % (p, '/'.join(rules.get(p, []))) for p in caught) or '**missed**'
    summ = (m.get('summary') or '').replace('\n', ' ').replace('|', '/')[:150]
    rows.append('| %s | %s | %s | %s | %s |' % (n, own, m.get('impl', ''), summ, cell))
print('| seeded defect | breaks | impl | change | reported by (rules) |')
print('|---|---|---|---|---|')
print('\n'.join(rows))
