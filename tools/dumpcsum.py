import sys
sys.path.insert(0,'/verif')
from zverif.cfront import unit
from zverif.csym import csummaries
root='/repo'
args=sys.argv[1:]
if args[0]=='--root': root=args[1]; args=args[2:]
u=unit(root)
ss=csummaries(u,args[0])
print(len(ss),'paths')
for s in ss:
    print('---', s.kind, 'ret=', s.ret_src())
    fi=0
    for i in range(len(s.events)+1):
        while fi<len(s.order) and s.order[fi][2]<=i:
            print('   fact', s.order[fi][0][:150], s.order[fi][1]); fi+=1
        if i<len(s.events): print('   ev  ', repr(s.events[i])[:160])
