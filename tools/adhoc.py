#!/usr/bin/env python3
"""Ad-hoc variant: replace one source fragment in a scratch copy of /repo/src
and run checks against it.  usage: adhoc.py <file under src/zope/interface> <old> <new> <props,...>
(old must occur exactly once)"""
import os, shutil, subprocess, sys, tempfile
VERIF = os.path.dirname(os.path.dirname(os.path.abspath(__file__)))
fn, old, new, props = sys.argv[1:5]
tmp = tempfile.mkdtemp(prefix='zvadhoc_')
try:
    os.makedirs(os.path.join(tmp, 'src/zope'))
    shutil.copytree('/repo/src/zope/interface', os.path.join(tmp, 'src/zope/interface'),
                    ignore=shutil.ignore_patterns('*.so', '__pycache__', 'tests'))
    p = os.path.join(tmp, 'src/zope/interface', fn)
    s = open(p).read()
    old = old.encode().decode('unicode_escape'); new = new.encode().decode('unicode_escape')
    if s.count(old) != 1:
        sys.exit('fragment occurs %d times' % s.count(old))
    open(p, 'w').write(s.replace(old, new))
    if fn.endswith('.py'):
        compile(open(p).read(), p, 'exec')
    for pr in props.split(','):
        r = subprocess.run([os.path.join(VERIF, 'check'), pr, '--root', tmp], capture_output=True, text=True,
                           env=dict(os.environ, ZVERIF_NO_EVIDENCE='1'))
        print(pr, 'exit', r.returncode)
        for l in r.stdout.splitlines():
            if l.startswith(('  rule', 'ANALYSIS-ERROR')):
                print('   ', l.strip()[:260])
finally:
    shutil.rmtree(tmp, ignore_errors=True)
