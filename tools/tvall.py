#!/usr/bin/env python3
"""all checks against all scratch variants under /tmp/tv (created with mkvariant.sh); prints alarms"""
import os, subprocess, sys
from concurrent.futures import ThreadPoolExecutor
V='/verif'
props=['C%02d'%i for i in range(1,21)]
names=sorted(os.listdir('/tmp/tv'))
only=sys.argv[1:]
if only: names=[n for n in names if any(n.startswith(o) for o in only)]
def run(job):
    n,p=job
    r=subprocess.run([V+'/check',p,'--root','/tmp/tv/'+n],capture_output=True,text=True,env=dict(os.environ,ZVERIF_NO_EVIDENCE='1'))
    return n,p,r.returncode,[l.strip()[:int(os.environ.get('W','200'))] for l in r.stdout.splitlines() if l.startswith(('  rule','ANALYSIS'))]
jobs=[(n,p) for n in names for p in props]
res={}
with ThreadPoolExecutor(16) as ex:
    for n,p,rc,lines in ex.map(run,jobs):
        if rc: res.setdefault(n,[]).append((p,rc,lines))
for n in names:
    if n in res:
        print('==',n,{p:rc for p,rc,_ in res[n]})
        for p,rc,lines in res[n]:
            for l in lines[:6]: print('   [%s] %s'%(p,l))
print('%d of %d variants alarm'%(len(res),len(names)))
