#!/bin/sh
# usage: mkvariant.sh <patch.diff> <dir>  -- scratch copy of /repo/src with the patch applied (remove it afterwards)
set -e
rm -rf "$2"; mkdir -p "$2/src/zope"
cp -r /repo/src/zope/interface "$2/src/zope/interface"
rm -rf "$2/src/zope/interface/tests" "$2"/src/zope/interface/*.so
find "$2" -name __pycache__ -prune -exec rm -rf {} +
patch -d "$2" -p1 -s -f -i "$(realpath "$1")"
