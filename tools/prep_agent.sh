#!/bin/sh
# usage: prep_agent.sh <name>  -> scratch worktree /tmp/agents/<name>/wt of /repo HEAD with the C extension built
set -e
d=/tmp/agents/$1
git -C /repo worktree remove --force $d/wt 2>/dev/null || true
rm -rf $d; mkdir -p $d /tmp/cand
git -C /repo worktree add -q --detach $d/wt HEAD
(cd $d/wt && /venv/bin/python setup.py -q build_ext --inplace >/dev/null 2>&1)
ls $d/wt/src/zope/interface/*.so >/dev/null
[ -d /tmp/wtsite ] || { cp -r "$(dirname "$0")/wtsite" /tmp/wtsite; chmod +x /tmp/wtsite/wtpy; }
echo $d/wt
