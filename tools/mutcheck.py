#!/usr/bin/env python3
"""Apply each patch (dir with patch.diff) to a scratch copy of /repo/src and
run the static checks against the copy with --root.  Nothing is executed from
the copy.  usage: mutcheck.py <dir-or-patch>... [--props C04,C05] [--all]"""
import os, shutil, subprocess, sys, tempfile, json
from concurrent.futures import ThreadPoolExecutor

VERIF = os.path.dirname(os.path.dirname(os.path.abspath(__file__)))

def available():
    return subprocess.run([os.path.join(VERIF, 'check'), '--list'], capture_output=True, text=True).stdout.split()

def run(patch, props):
    tmp = tempfile.mkdtemp(prefix='zvmut_')
    try:
        os.makedirs(os.path.join(tmp, 'src/zope'))
        shutil.copytree('/repo/src/zope/interface', os.path.join(tmp, 'src/zope/interface'),
                        ignore=shutil.ignore_patterns('*.so', '__pycache__', 'tests'))
        r = subprocess.run(['patch', '-p1', '-s', '-f', '-i', os.path.abspath(patch)], cwd=tmp, capture_output=True, text=True)
        if r.returncode != 0:
            return {'error': 'patch failed: ' + r.stdout[-300:] + r.stderr[-300:]}
        res = {}
        for p in props:
            env = dict(os.environ, ZVERIF_NO_EVIDENCE='1')
            rr = subprocess.run([os.path.join(VERIF, 'check'), p, '--root', tmp], capture_output=True, text=True, env=env)
            lines = [l for l in rr.stdout.splitlines() if l.startswith(('VIOLATION', '  rule', 'ANALYSIS-ERROR'))]
            res[p] = (rr.returncode, lines)
        return res
    finally:
        shutil.rmtree(tmp, ignore_errors=True)

def main():
    args = sys.argv[1:]
    props = None
    verbose = '-v' in args
    args = [a for a in args if a != '-v']
    if '--props' in args:
        i = args.index('--props'); props = args[i+1].split(','); del args[i:i+2]
    av = available()
    patches = []
    for a in args:
        patches.append(os.path.join(a, 'patch.diff') if os.path.isdir(a) else a)
    def job(p):
        own = os.path.basename(os.path.dirname(p)).split('_')[0]
        ps = props or av
        return p, own, run(p, ps)
    with ThreadPoolExecutor(8) as ex:
        for p, own, res in ex.map(job, patches):
            name = os.path.basename(os.path.dirname(p))
            if 'error' in res:
                print(name, 'ERROR', res['error']); continue
            hits = [k for k, (rc, _) in res.items() if rc == 1]
            errs = [k for k, (rc, _) in res.items() if rc == 2]
            status = 'CAUGHT' if own in hits else ('caught-by-other' if hits else 'MISSED')
            print('%-10s %-16s viol=%s err=%s' % (name, status, ','.join(hits), ','.join(errs)))
            if verbose or True:
                for k, (rc, lines) in res.items():
                    if rc:
                        for l in lines:
                            if l.startswith('  rule') or l.startswith('ANALYSIS'):
                                print('      [%s] %s' % (k, l.strip()[:260]))
main()
