#!/bin/sh
# usage: tvrun.sh <prop> [twin-name-glob]   -- run one check on the scratch variants under /tmp/tv
p=$1; g=${2:-*}
for d in /tmp/tv/$g; do n=$(basename $d); out=$(ZVERIF_NO_EVIDENCE=1 /verif/check $p --root $d 2>&1 | grep "^  rule\|ANALYSIS" | cut -c1-${W:-260}); [ -n "$out" ] && { echo "== $n"; echo "$out"; }; done
