#!/usr/bin/env python3
"""Every stored seeded defect against the check of the property it was written
against (and nothing else): must be reported (exit 1).  Cheap regression after an
engine change; the full matrix is tools/update_caught.py.
usage: owncheck.py [name-prefix ...]"""
import json, os, shutil, subprocess, sys, tempfile
from concurrent.futures import ThreadPoolExecutor
VERIF = os.path.dirname(os.path.dirname(os.path.abspath(__file__)))
def run(name):
    d = os.path.join(VERIF, 'seeded', name)
    meta = json.load(open(os.path.join(d, 'meta.json')))
    own = meta.get('property', name.split('_')[0])
    tmp = tempfile.mkdtemp(prefix='zvown_')
    try:
        os.makedirs(os.path.join(tmp, 'src/zope'))
        shutil.copytree('/repo/src/zope/interface', os.path.join(tmp, 'src/zope/interface'), ignore=shutil.ignore_patterns('*.so', '__pycache__', 'tests'))
        r = subprocess.run(['patch', '-p1', '-s', '-f', '-i', os.path.join(d, 'patch.diff')], cwd=tmp, capture_output=True, text=True)
        if r.returncode:
            return name, own, 'patch-failed', []
        rr = subprocess.run([os.path.join(VERIF, 'check'), own, '--root', tmp], capture_output=True, text=True, env=dict(os.environ, ZVERIF_NO_EVIDENCE='1'))
        rules = sorted({l.split()[1] for l in rr.stdout.splitlines() if l.startswith('  rule')})
        return name, own, rr.returncode, rules
    finally:
        shutil.rmtree(tmp, ignore_errors=True)
names = sorted(n for n in os.listdir(os.path.join(VERIF, 'seeded')) if os.path.isdir(os.path.join(VERIF, 'seeded', n)))
only = sys.argv[1:]
if only: names = [n for n in names if any(n.startswith(o) for o in only)]
bad = 0
with ThreadPoolExecutor(14) as ex:
    for name, own, rc, rules in ex.map(run, names):
        if rc != 1:
            bad += 1
            print('%-10s NOT REPORTED by %s (rc=%s)' % (name, own, rc))
print('%d of %d stored defects reported by their own property\'s check' % (len(names) - bad, len(names)))
