#!/usr/bin/env python3
"""Confirm candidate seeded defects independently and store them under
/verif/seeded/<name>/.

For each candidate directory (patch.diff, demo.py, meta.json) a scratch git
worktree of /repo HEAD is created under /tmp, the C extension is built, and:
  1. demo.py must PASS on the unmodified tree,
  2. the patch must apply,
  3. (rebuild if the .c file changed) demo.py must FAIL with the patch,
  4. the existing suite must still give the baseline result with the patch.
The worktree and its build output are removed afterwards.
usage: confirm_mut.py <candidate-dir>...
"""
import json
import os
import shutil
import subprocess
import sys
from concurrent.futures import ThreadPoolExecutor

VERIF = os.path.dirname(os.path.dirname(os.path.abspath(__file__)))
WTPY = '/tmp/wtsite/wtpy'


def sh(cmd, cwd=None, env=None, timeout=600):
    e = dict(os.environ)
    if env:
        e.update(env)
    r = subprocess.run(cmd, cwd=cwd, env=e, shell=isinstance(cmd, str),
                       capture_output=True, text=True, timeout=timeout)
    return r.returncode, (r.stdout + r.stderr)


def suite(wt):
    rc, out = sh('%s -m pytest -q -p no:cacheprovider -x -q 2>&1 | tail -3' % WTPY,
                 cwd=wt, env={'ZI_WT': wt})
    rc, out = sh('%s -m pytest -q -p no:cacheprovider 2>&1 | tail -1' % WTPY,
                 cwd=wt, env={'ZI_WT': wt})
    return out.strip().split(' in ')[0]


def confirm(cand):
    name = os.path.basename(cand.rstrip('/'))
    wt = '/tmp/confirm_wt_' + name
    res = {'name': name}
    try:
        sh(['git', '-C', '/repo', 'worktree', 'remove', '--force', wt])
        rc, out = sh(['git', '-C', '/repo', 'worktree', 'add', '-q', '--detach', wt, 'HEAD'])
        if rc:
            res['error'] = 'worktree: ' + out[-200:]
            return res
        sh('/venv/bin/python setup.py -q build_ext --inplace', cwd=wt)
        env = {'ZI_WT': wt}
        demo = os.path.join(cand, 'demo.py')
        rc0, out0 = sh([WTPY, demo], cwd=wt, env=env, timeout=300)
        res['demo_clean_rc'] = rc0
        base = suite(wt)
        res['suite_clean'] = base
        patch = os.path.join(cand, 'patch.diff')
        rc, out = sh(['git', 'apply', patch], cwd=wt)
        if rc:
            rc, out = sh(['patch', '-p1', '-f', '-i', patch], cwd=wt)
            res['applied_with'] = 'patch(1)'
            if rc:
                res['error'] = 'patch does not apply: ' + out[-300:]
                return res
            # regenerate a clean diff against the current tree
            _, newdiff = sh(['git', 'diff'], cwd=wt)
            res['rebased_diff'] = newdiff
        rc, changed = sh(['git', 'diff', '--name-only'], cwd=wt)
        res['files'] = changed.split()
        if any(f.endswith('.c') for f in res['files']):
            rcb, outb = sh('/venv/bin/python setup.py -q build_ext --inplace', cwd=wt)
            if rcb:
                res['error'] = 'C build failed: ' + outb[-300:]
                return res
        rc1, out1 = sh([WTPY, demo], cwd=wt, env=env, timeout=300)
        res['demo_patched_rc'] = rc1
        res['demo_patched_tail'] = out1.strip()[-300:]
        res['suite_patched'] = suite(wt)
        res['confirmed'] = (rc0 == 0 and rc1 != 0 and
                            res['suite_patched'] == res['suite_clean'])
        return res
    except Exception as e:  # noqa
        res['error'] = repr(e)
        return res
    finally:
        sh(['git', '-C', '/repo', 'worktree', 'remove', '--force', wt])
        shutil.rmtree(wt, ignore_errors=True)


def main():
    cands = [c for c in sys.argv[1:] if os.path.isdir(c)]
    with ThreadPoolExecutor(6) as ex:
        for cand, res in zip(cands, ex.map(confirm, cands)):
            name = res['name']
            ok = res.get('confirmed')
            print('%-8s %s  clean_demo=%s patched_demo=%s suite=%s/%s %s' % (
                name, 'CONFIRMED' if ok else 'REJECTED', res.get('demo_clean_rc'),
                res.get('demo_patched_rc'), res.get('suite_clean'),
                res.get('suite_patched'), res.get('error', '')))
            sys.stdout.flush()
            if not ok:
                continue
            dst = os.path.join(VERIF, 'seeded', name)
            os.makedirs(dst, exist_ok=True)
            if 'rebased_diff' in res:
                with open(os.path.join(dst, 'patch.diff'), 'w') as f:
                    f.write(res['rebased_diff'])
            else:
                shutil.copy(os.path.join(cand, 'patch.diff'), dst)
            shutil.copy(os.path.join(cand, 'demo.py'), dst)
            meta = {}
            try:
                with open(os.path.join(cand, 'meta.json')) as f:
                    meta = json.load(f)
            except Exception:
                pass
            old = {}
            if os.path.exists(os.path.join(dst, 'meta.json')):
                with open(os.path.join(dst, 'meta.json')) as f:
                    old = json.load(f)
            meta.update({
                'property': meta.get('property', name.split('_')[0]),
                'files': res['files'],
                'confirmed': {
                    'how': 'scratch git worktree of /repo HEAD under /tmp, C extension rebuilt when the .c file changed; commands: `ZI_WT=<wt> /tmp/wtsite/wtpy demo.py` before and after `git apply patch.diff`; `ZI_WT=<wt> /tmp/wtsite/wtpy -m pytest -q -p no:cacheprovider`',
                    'repo_head': subprocess.run(['git', '-C', '/repo', 'rev-parse', '--short', 'HEAD'], capture_output=True, text=True).stdout.strip(),
                    'demo_on_clean_tree_rc': res['demo_clean_rc'],
                    'demo_with_patch_rc': res['demo_patched_rc'],
                    'demo_with_patch_output_tail': res['demo_patched_tail'],
                    'suite_clean': res['suite_clean'],
                    'suite_with_patch': res['suite_patched'],
                },
                'caught_by': old.get('caught_by', meta.get('caught_by', [])),
            })
            with open(os.path.join(dst, 'meta.json'), 'w') as f:
                json.dump(meta, f, indent=1)


main()
