#!/usr/bin/env python3
"""Which stored patches (seeded defects, twins) stop applying when <fix.diff> is applied to /repo/src first?
usage: patch_survey.py <fix.diff>"""
import os, shutil, subprocess, sys, tempfile, glob
VERIF = os.path.dirname(os.path.dirname(os.path.abspath(__file__)))
fix = os.path.abspath(sys.argv[1])
tmp = tempfile.mkdtemp(prefix='zvsurvey_')
try:
    os.makedirs(tmp + '/src/zope')
    shutil.copytree('/repo/src/zope/interface', tmp + '/src/zope/interface', ignore=shutil.ignore_patterns('*.so', '__pycache__'))
    r = subprocess.run(['patch', '-p1', '-s', '-f', '-i', fix], cwd=tmp, capture_output=True, text=True)
    assert r.returncode == 0, r.stdout + r.stderr
    pats = sorted(glob.glob(VERIF + '/seeded/*/patch.diff')) + sorted(glob.glob(VERIF + '/selftest/twins/*.diff'))
    bad = []
    for p in pats:
        r = subprocess.run(['patch', '-p1', '-s', '-f', '--dry-run', '-i', p], cwd=tmp, capture_output=True, text=True)
        if r.returncode:
            bad.append(p.replace(VERIF + '/', ''))
    print('%d of %d stored patches no longer apply:' % (len(bad), len(pats)))
    for b in bad:
        print('  ', b)
finally:
    shutil.rmtree(tmp, ignore_errors=True)
